#!/bin/bash
# Offline set-up: build the instrumenter and warm the Go build cache (std rebuilt once with
# the runtime/select.go overlay) by building the simulated test binary from /repo.
set -euo pipefail
V="$(cd "$(dirname "$0")" && pwd)"
export GOFLAGS=-mod=mod GOPROXY=off GOTOOLCHAIN=local GOSUMDB=off
mkdir -p "$V/bin" "$V/evidence" "$V/replays"
(cd "$V/sim/instrument" && go1.26.8 build -o "$V/bin/instrument" .)
S="$(mktemp -d /tmp/gtree-sim-setup-XXXXXX)"
trap 'rm -rf "$S"' EXIT
"$V/sim/build.sh" "$S" 1
"$S/sim.test" -test.run '^TestSim$' -sim.prop C12 -sim.to 20 > /dev/null
echo "setup ok"
