#!/bin/bash
# Runs the repository's pinned test suite (guard off: /repo has no hooks) and checks that
# every test of the stable baseline (baseline_tests.txt, from /root/.vp/BASELINE.json) passes.
REPO="${VERIF_REPO:-/repo}"
V="$(cd "$(dirname "$0")" && pwd)"
export GOFLAGS=-mod=mod GOPROXY=off
cd "$REPO" || exit 2
go test -json -vet=off -count=1 -timeout 25m ./... 2>/dev/null | python3 -c "
import sys, json
want=[l.strip() for l in open('$V/baseline_tests.txt') if l.strip()]
res={}
for l in sys.stdin:
    try: e=json.loads(l)
    except Exception: continue
    if e.get('Test') and e.get('Action') in ('pass','fail'):
        res[e['Package']+'::'+e['Test']]=e['Action']
bad=[w for w in want if res.get(w)!='pass']
print('baseline: %d/%d stable tests pass' % (len(want)-len(bad), len(want)))
for b in bad: print('  NOT PASSING:', b, res.get(b))
sys.exit(1 if bad else 0)
"
