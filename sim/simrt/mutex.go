package simrt

import (
	"runtime"
	"strconv"
	"sync"
)

// Mutex replaces sync.Mutex in instrumented code. Blocking happens on a per-wait
// channel created in the current bubble, which synctest treats as a durable block
// (a goroutine blocked on a real sync.Mutex is not durably blocked, and a channel made
// in one bubble must not be used in the next).
type Mutex struct {
	rw RWMutex
}

func (m *Mutex) Lock()         { m.rw.lock(callerSite()) }
func (m *Mutex) Unlock()       { m.rw.Unlock() }
func (m *Mutex) TryLock() bool { return m.rw.TryLock() }

// RWMutex replaces sync.RWMutex: writer-preferring, FIFO.
type RWMutex struct {
	mu      sync.Mutex
	writer  bool
	readers int
	queue   []*waiter
}

type waiter struct {
	write bool
	ch    chan struct{}
}

func callerSite() string {
	var pcs [1]uintptr
	if runtime.Callers(3, pcs[:]) == 0 {
		return "lock"
	}
	return siteOfPC(pcs[0])
}

var pcCache sync.Map

func siteOfPC(pc uintptr) string {
	if v, ok := pcCache.Load(pc); ok {
		return v.(string)
	}
	fr, _ := runtime.CallersFrames([]uintptr{pc}).Next()
	f := fr.File
	for i := len(f) - 1; i >= 0; i-- {
		if f[i] == '/' {
			f = f[i+1:]
			break
		}
	}
	s := f + ":" + strconv.Itoa(fr.Line) + ":lock"
	pcCache.Store(pc, s)
	return s
}

func (m *RWMutex) Lock() { m.lock(callerSite()) }

func (m *RWMutex) lock(site string) {
	Pre(site)
	m.mu.Lock()
	if !m.writer && m.readers == 0 && len(m.queue) == 0 {
		m.writer = true
		m.mu.Unlock()
	} else {
		w := &waiter{write: true, ch: make(chan struct{})}
		m.queue = append(m.queue, w)
		m.mu.Unlock()
		Probe("mutex.contended")
		<-w.ch
	}
	noteAcquire(m)
	Post(site)
}

func (m *RWMutex) TryLock() bool {
	m.mu.Lock()
	defer m.mu.Unlock()
	if !m.writer && m.readers == 0 && len(m.queue) == 0 {
		m.writer = true
		noteAcquire(m)
		return true
	}
	return false
}

func (m *RWMutex) Unlock() {
	noteRelease(m)
	m.mu.Lock()
	if !m.writer {
		m.mu.Unlock()
		panic("simrt: unlock of unlocked mutex")
	}
	m.writer = false
	m.grant()
	m.mu.Unlock()
}

func (m *RWMutex) RLock() {
	site := callerSite()
	Pre(site)
	m.mu.Lock()
	if !m.writer && len(m.queue) == 0 {
		m.readers++
		m.mu.Unlock()
	} else {
		w := &waiter{write: false, ch: make(chan struct{})}
		m.queue = append(m.queue, w)
		m.mu.Unlock()
		Probe("mutex.contended")
		<-w.ch
	}
	noteAcquire(m)
	Post(site)
}

func (m *RWMutex) RUnlock() {
	noteRelease(m)
	m.mu.Lock()
	if m.readers <= 0 {
		m.mu.Unlock()
		panic("simrt: RUnlock of unlocked RWMutex")
	}
	m.readers--
	m.grant()
	m.mu.Unlock()
}

// grant hands the lock to the head(s) of the queue; called with m.mu held.
func (m *RWMutex) grant() {
	for len(m.queue) > 0 {
		w := m.queue[0]
		if w.write {
			if m.writer || m.readers > 0 {
				return
			}
			m.writer = true
			m.queue = m.queue[1:]
			close(w.ch)
			return
		}
		if m.writer {
			return
		}
		m.readers++
		m.queue = m.queue[1:]
		close(w.ch)
	}
}

func noteAcquire(m any) {
	if r := active(); r != nil && r.OnAcquire != nil {
		if t := r.lookup(); t != nil {
			r.OnAcquire(t, m)
		}
	}
}

func noteRelease(m any) {
	if r := active(); r != nil && r.OnRelease != nil {
		if t := r.lookup(); t != nil {
			r.OnRelease(t, m)
		}
	}
}

// Pool replaces sync.Pool in instrumented code: a plain LIFO free list. sync.Pool's
// behaviour depends on which P a goroutine runs on and on garbage collections, which would
// make a run depend on more than its seed.
type Pool struct {
	mu    sync.Mutex
	items []any
	New   func() any
}

func (p *Pool) Get() any {
	p.mu.Lock()
	if n := len(p.items); n > 0 {
		x := p.items[n-1]
		p.items = p.items[:n-1]
		p.mu.Unlock()
		return x
	}
	p.mu.Unlock()
	if p.New != nil {
		return p.New()
	}
	return nil
}

func (p *Pool) Put(x any) {
	if x == nil {
		return
	}
	p.mu.Lock()
	p.items = append(p.items, x)
	p.mu.Unlock()
}

// Once replaces sync.Once: a second caller arriving while the first is still inside f
// blocks on a simulator mutex (a durable block), not on a runtime semaphore.
type Once struct {
	m    Mutex
	done bool
}

func (o *Once) Do(f func()) {
	o.m.Lock()
	defer o.m.Unlock()
	if !o.done {
		defer func() { o.done = true }()
		f()
	}
}
