// Package simrt is the deterministic scheduler of the gtree simulator.
//
// Instrumented gtree code (a scratch copy produced by cmd/instrument) calls the
// hook functions in this package around every operation that can block or wake
// another goroutine. Inside a run (one testing/synctest bubble) every such hook
// parks the calling goroutine on a private channel; the scheduler loop waits for
// quiescence (synctest.Wait), then releases exactly one parked task, chosen by
// the run's Chooser. Outside a run every hook is a pass-through, so the same
// instrumented code also serves as the un-simulated reference.
package simrt

import (
	"fmt"
	"runtime"
	"sort"
	"strconv"
	"strings"
	"sync"
	"sync/atomic"
	"testing/synctest"
	_ "unsafe"
	"time"
)

// ---- runtime overlay seams (see overlay/select.go.patch) ---------------------

//go:linkname selState runtime.simSelState
var selState uint32

//go:linkname goid runtime.simGoid
func goid() uint64

//go:linkname inBubble runtime.simInBubble
func inBubble() bool

//go:linkname onOwnStack runtime.simOnOwnStack
func onOwnStack(p uintptr) bool

//go:linkname mapState runtime.simMapState
var mapState uint64

// SeedMaps makes map hash seeds and iteration offsets a function of x until SeedMaps(0):
// code that ranges over a map (gtree's verifier does) then behaves the same on replay.
func SeedMaps(x uint64) { mapState = x }

// active returns the current run if the calling goroutine belongs to its bubble. A
// goroutine outside any bubble (left over from an un-simulated reference call that is
// still winding down) must never touch the scheduler: for it every hook is a pass-through.
func active() *Run {
	r := cur.Load()
	if r == nil || !inBubble() {
		return nil
	}
	return r
}

// ---- tasks -------------------------------------------------------------------

type tstate int

const (
	tStarting tstate = iota // spawned, has not reached its first park yet
	tParked                 // parked at a hook, waiting for the scheduler
	tRunning                // released; at quiescence this means "blocked inside a real operation"
	tDone                   // function returned (or panicked)
)

// Task is one simulated thread of control (a goroutine started through Go / WrapGoErr,
// or a caller task started by the harness).
type Task struct {
	ID        string
	SpawnSite string
	Class     string // scheduling class (spawn site without line), used by starvation strategies
	goid      uint64
	state     tstate
	wake      chan struct{}
	kids      int
	site      string // site of the last hook reached
	kind      string // kind of the last hook reached
	Panic     any
	PanicSite string
	Stack     string
	prio      int // strategy scratch
	// race detector scratch (level 2)
	VC map[string]int
}

// Step is one scheduler decision, as recorded in the trace.
type Step struct {
	Task string `json:"t"`
	Site string `json:"s"`
	Kind string `json:"k"`
}

// Chooser decides which parked task runs next. cands[0] is the task released in the
// previous step if it is still parked ("continue"), the rest is sorted by task id.
// It returns the index into cands and the select seed for this step.
type Chooser interface {
	Choose(r *Run, cands []*Task) (idx int, sel uint32)
}

// Run is one simulated execution.
type Run struct {
	stallGate chan struct{} // closed by ReleaseStalled
	mu      sync.Mutex
	tasks   []*Task
	byGoid  map[uint64]*Task
	actor   *Task
	chooser Chooser

	Steps    int
	MaxSteps int
	Trace    []Step
	KeepTrace bool
	thash    uint64
	ohash    map[string]uint64 // per-object event-order hashes (partial-order measure)

	// environment events executed by the scheduler between steps
	AtStep map[int][]func()

	Probes map[string]int

	StepCapHit bool
	Hang       bool
	// ContinuePossible tells the chooser that cands[0] is the task released last
	ContinuePossible bool
	// TimeAdvances counts fake-clock advances made to let timers fire
	TimeAdvances int
	// Observer, if set, is called for each released step (level-2 race detector etc.).
	OnStep func(t *Task)

	done bool

	race *raceState
	// lock observers (level 2)
	OnAcquire func(t *Task, m any)
	OnRelease func(t *Task, m any)
}

var cur atomic.Pointer[Run]

// Stray reports whether the caller is a goroutine outside the bubble of a run in progress
// (left over from an un-simulated call): the seams ignore it.
func Stray() bool { return cur.Load() != nil && !inBubble() }

// Active reports whether a simulated run is in progress.
func Active() bool { return cur.Load() != nil }

// Current returns the active run or nil.
func Current() *Run { return cur.Load() }

// NewRun creates a run; call Start from inside a synctest bubble.
func NewRun(ch Chooser, maxSteps int) *Run {
	return &Run{
		byGoid:   map[uint64]*Task{},
		chooser:  ch,
		MaxSteps: maxSteps,
		AtStep:   map[int][]func(){},
		Probes:   map[string]int{},
		ohash:    map[string]uint64{},
		thash:    14695981039346656037,
	}
}

// Probe counts a reached rare condition.
func Probe(name string) {
	r := active()
	if r == nil {
		return
	}
	r.mu.Lock()
	r.Probes[name]++
	r.mu.Unlock()
}

func (r *Run) probe(name string) { r.Probes[name]++ }

// CountProbe is Probe for callers that already hold the run.
func (r *Run) CountProbe(name string) {
	r.mu.Lock()
	r.Probes[name]++
	r.mu.Unlock()
}

func classOf(site string) string {
	// "file.go:123:go@fn" -> "file.go:go@fn" ; keeps the class stable under line shifts
	parts := strings.Split(site, ":")
	if len(parts) >= 3 {
		return parts[0] + ":" + strings.Join(parts[2:], ":")
	}
	return site
}

// Spawn starts fn as a top-level task (used by the harness for caller tasks).
func (r *Run) Spawn(id, site string, fn func()) *Task {
	t := &Task{ID: id, SpawnSite: site, Class: classOf(site), wake: make(chan struct{}), state: tStarting}
	r.mu.Lock()
	r.tasks = append(r.tasks, t)
	r.mu.Unlock()
	go r.body(t, fn)
	return t
}

func (r *Run) body(t *Task, fn func()) {
	g := goid()
	r.mu.Lock()
	t.goid = g
	r.byGoid[g] = t
	r.mu.Unlock()
	defer func() {
		if p := recover(); p != nil {
			buf := make([]byte, 16<<10)
			n := runtime.Stack(buf, false)
			r.mu.Lock()
			t.Panic = p
			t.Stack = string(buf[:n])
			t.PanicSite = panicSite(t.Stack)
			r.mu.Unlock()
		}
		r.mu.Lock()
		t.state = tDone
		delete(r.byGoid, g)
		r.mu.Unlock()
	}()
	r.park(t, t.SpawnSite, "start")
	fn()
}

// panicSite extracts the first gtree frame below the panic from a stack dump.
func panicSite(stack string) string {
	lines := strings.Split(stack, "\n")
	seenPanic := false
	for i := 0; i < len(lines); i++ {
		l := lines[i]
		if strings.HasPrefix(l, "panic(") || strings.HasPrefix(l, "runtime.gopanic") {
			seenPanic = true
			continue
		}
		if !seenPanic {
			continue
		}
		if strings.HasPrefix(l, "runtime.") || strings.HasPrefix(l, "\t") {
			continue
		}
		if strings.Contains(l, "/simrt.") || strings.Contains(l, "/simfs.") {
			continue
		}
		// function line, e.g. github.com/ddddddO/gtree.(*defaultGrowerSimple).assembleBranch(...)
		fn := l
		if k := strings.LastIndex(fn, "("); k > 0 {
			fn = fn[:k]
		}
		if k := strings.LastIndex(fn, "/"); k >= 0 {
			fn = fn[k+1:]
		}
		return fn
	}
	return "?"
}

func (r *Run) lookup() *Task {
	g := goid()
	r.mu.Lock()
	t := r.byGoid[g]
	if t == nil {
		// A goroutine the simulator did not start: a coroutine of iter.Pull (runs
		// synchronously on behalf of the actor). Alias it to the actor.
		t = r.actor
	}
	r.mu.Unlock()
	return t
}

func (r *Run) park(t *Task, site, kind string) {
	r.mu.Lock()
	t.state = tParked
	t.site = site
	t.kind = kind
	r.mu.Unlock()
	<-t.wake
}

// Loop is the scheduler; it returns at final quiescence (nothing parked) or when the
// step cap is hit. Must be called from the bubble's root goroutine.
func (r *Run) Loop() {
	var last *Task
	for {
		synctest.Wait()
		if evs := r.AtStep[r.Steps]; len(evs) > 0 {
			delete(r.AtStep, r.Steps)
			for _, ev := range evs {
				ev()
			}
			continue // let woken goroutines settle first
		}
		r.mu.Lock()
		var parked []*Task
		for _, t := range r.tasks {
			if t.state == tParked {
				parked = append(parked, t)
			}
		}
		if len(parked) == 0 {
			pending := false
			for _, t := range r.tasks {
				if t.state != tDone {
					pending = true
				}
			}
			r.mu.Unlock()
			if pending && r.TimeAdvances < 3 {
				// somebody may be waiting for a timer: advance the fake clock
				r.TimeAdvances++
				time.Sleep(time.Hour)
				continue
			}
			// run remaining environment events (e.g. a cancellation scheduled later
			// than the run lasted) so that the caller observes them; they cannot
			// rescue a deadlock, which is decided by the harness from task states.
			break
		}
		if r.Steps >= r.MaxSteps {
			r.StepCapHit = true
			r.mu.Unlock()
			break
		}
		sort.Slice(parked, func(i, j int) bool { return lessID(parked[i].ID, parked[j].ID) })
		cands := parked
		r.ContinuePossible = last != nil && last.state == tParked
		if r.ContinuePossible {
			cands = make([]*Task, 0, len(parked))
			cands = append(cands, last)
			for _, t := range parked {
				if t != last {
					cands = append(cands, t)
				}
			}
		}
		if len(cands) >= 2 {
			r.probe("sched.choice>=2")
		}
		r.mu.Unlock()
		idx, sel := r.chooser.Choose(r, cands)
		if idx < 0 || idx >= len(cands) {
			idx = 0
		}
		t := cands[idx]
		r.mu.Lock()
		r.Steps++
		r.actor = t
		t.state = tRunning
		st := Step{t.ID, t.site, t.kind}
		if r.KeepTrace {
			r.Trace = append(r.Trace, st)
		}
		r.thash = fnvStr(fnvStr(fnvStr(r.thash, st.Task), st.Site), st.Kind)
		if oh, ok := r.ohash[st.Site]; ok {
			r.ohash[st.Site] = fnvStr(fnvStr(oh, st.Task), st.Kind)
		} else {
			r.ohash[st.Site] = fnvStr(fnvStr(14695981039346656037, st.Task), st.Kind)
		}
		if r.OnStep != nil {
			r.OnStep(t)
		}
		r.mu.Unlock()
		selState = sel
		last = t
		t.wake <- struct{}{}
	}
	selState = 0
}

func fnvStr(h uint64, s string) uint64 {
	for i := 0; i < len(s); i++ {
		h ^= uint64(s[i])
		h *= 1099511628211
	}
	h ^= 0xff
	h *= 1099511628211
	return h
}

// TraceHash identifies the full schedule (task, site, kind per step).
func (r *Run) TraceHash() uint64 { return r.thash }

// OrderHash identifies the schedule up to commuting independent steps: it combines the
// per-object (channel / lock / stream) event orders recorded by NoteObj.
func (r *Run) OrderHash() uint64 {
	keys := make([]string, 0, len(r.ohash))
	for k := range r.ohash {
		keys = append(keys, k)
	}
	sort.Strings(keys)
	h := uint64(14695981039346656037)
	for _, k := range keys {
		h = fnvStr(h, k)
		h ^= r.ohash[k]
		h *= 1099511628211
	}
	return h
}

// NoteObj records that the current task performed an event on the named object.
func NoteObj(obj string, what string) {
	r := active()
	if r == nil {
		return
	}
	t := r.lookup()
	id := "?"
	if t != nil {
		id = t.ID
	}
	r.mu.Lock()
	h, ok := r.ohash[obj]
	if !ok {
		h = 14695981039346656037
	}
	r.ohash[obj] = fnvStr(fnvStr(h, id), what)
	r.mu.Unlock()
}

func lessID(a, b string) bool {
	as, bs := strings.Split(a, "."), strings.Split(b, ".")
	for i := 0; i < len(as) && i < len(bs); i++ {
		if as[i] == bs[i] {
			continue
		}
		ai, e1 := strconv.Atoi(as[i])
		bi, e2 := strconv.Atoi(bs[i])
		if e1 == nil && e2 == nil {
			return ai < bi
		}
		return as[i] < bs[i]
	}
	return len(as) < len(bs)
}

// Begin installs r as the active run. End removes it.
func (r *Run) Begin() { r.stallGate = make(chan struct{}); cur.Store(r) }
func (r *Run) End()   { r.done = true; cur.Store(nil); selState = 0 }

// ReleaseStalled ends the run and lets every task that sits in BlockForever go on, outside
// the scheduler (all hooks are pass-through once the run has ended). The harness calls it
// after it has taken its snapshot of the final state, so that stalled goroutines unwind
// and leave the bubble instead of staying in the process for ever.
func (r *Run) ReleaseStalled() {
	r.End()
	r.mu.Lock()
	if r.stallGate != nil {
		close(r.stallGate)
		r.stallGate = nil
	}
	r.mu.Unlock()
}

// Tasks returns a snapshot of all tasks (call after Loop returned).
func (r *Run) Tasks() []*Task {
	r.mu.Lock()
	defer r.mu.Unlock()
	out := make([]*Task, len(r.tasks))
	copy(out, r.tasks)
	return out
}

// TaskInfo describes a task at final quiescence.
type TaskInfo struct {
	ID        string `json:"id"`
	SpawnSite string `json:"spawn"`
	State     string `json:"state"`
	Site      string `json:"site"`
	Kind      string `json:"kind"`
	Panic     string `json:"panic,omitempty"`
	PanicSite string `json:"panic_site,omitempty"`
}

func (r *Run) Infos() []TaskInfo {
	r.mu.Lock()
	defer r.mu.Unlock()
	var out []TaskInfo
	for _, t := range r.tasks {
		ti := TaskInfo{ID: t.ID, SpawnSite: t.SpawnSite, Site: t.site, Kind: t.kind}
		switch t.state {
		case tStarting:
			ti.State = "starting"
		case tParked:
			ti.State = "parked"
		case tRunning:
			ti.State = "blocked"
		case tDone:
			ti.State = "done"
		}
		if t.Panic != nil {
			ti.Panic = fmt.Sprint(t.Panic)
			ti.PanicSite = t.PanicSite
		}
		out = append(out, ti)
	}
	return out
}

// IsDone reports whether the task's function has returned.
func (t *Task) IsDone() bool { return t.state == tDone }

// ---- hooks called by instrumented code ----------------------------------------

// Go replaces a go statement.
func Go(site string, fn func()) {
	r := active()
	if r == nil {
		go fn()
		return
	}
	p := r.lookup()
	r.mu.Lock()
	pid := "x"
	if p != nil {
		pid = p.ID + "." + strconv.Itoa(p.kids)
		p.kids++
	} else {
		pid = "x." + strconv.Itoa(len(r.tasks))
	}
	t := &Task{ID: pid, SpawnSite: site, Class: classOf(site), wake: make(chan struct{}), state: tStarting}
	r.tasks = append(r.tasks, t)
	r.mu.Unlock()
	r.raceSpawn(p, t)
	go r.body(t, fn)
	if p != nil {
		// a go statement is a point at which the spawning goroutine may be preempted: whether
		// it goes on (to its next go statement, say) or the new goroutine runs first is the
		// scheduler's choice
		Yield(site)
	}
}

// WrapGoErr wraps the function given to errgroup.Group.Go.
func WrapGoErr(site string, fn func() error) func() error {
	r := active()
	if r == nil {
		return fn
	}
	p := r.lookup()
	r.mu.Lock()
	pid := "x"
	if p != nil {
		pid = p.ID + "." + strconv.Itoa(p.kids)
		p.kids++
	}
	t := &Task{ID: pid, SpawnSite: site, Class: classOf(site), wake: make(chan struct{}), state: tStarting}
	r.tasks = append(r.tasks, t)
	r.mu.Unlock()
	r.raceSpawn(p, t)
	return func() (err error) {
		// runs on the goroutine started inside errgroup; a panic must not kill the
		// process, so body() recovers; errgroup's own bookkeeping (done/Wait) still runs.
		r.body(t, func() { err = fn(); r.raceEgEnd(t) })
		if t.Panic != nil && err == nil {
			err = fmt.Errorf("panic in errgroup goroutine: %v", t.Panic)
		}
		return err
	}
}

// Pre parks the calling task before an operation that may block or wake others.
func Pre(site string) {
	r := active()
	if r == nil {
		return
	}
	t := r.lookup()
	if t == nil {
		return
	}
	r.park(t, site, "pre")
}

// Post parks the calling task right after such an operation.
func Post(site string) {
	r := active()
	if r == nil {
		return
	}
	t := r.lookup()
	if t == nil {
		return
	}
	r.park(t, site, "post")
}

// PostSel is Post for a select clause; it records which case fired.
func PostSel(site string, idx int) {
	r := active()
	if r == nil {
		return
	}
	t := r.lookup()
	if t == nil {
		return
	}
	r.park(t, site, "sel"+strconv.Itoa(idx))
}

// Yield parks the calling task at a point where a stub (reader, writer, callback,
// disk) hands control to the scheduler.
func Yield(site string) {
	r := active()
	if r == nil {
		return
	}
	t := r.lookup()
	if t == nil {
		return
	}
	r.park(t, site, "yield")
}

// WaitGate parks the calling task outside the scheduler's reach until the gate is closed by
// another task (a stub that is held up by something outside the library); once woken it
// queues up for its turn like everybody else.
func WaitGate(site string, gate <-chan struct{}) {
	r := active()
	if r == nil {
		<-gate
		return
	}
	if t := r.lookup(); t != nil {
		r.mu.Lock()
		t.site, t.kind = site, "stalled"
		r.mu.Unlock()
	}
	<-gate
	Yield(site)
}

// BlockForever parks the calling task where no one will ever wake it (a stub that stalls).
func BlockForever(site string) {
	r := active()
	if r == nil {
		select {}
	}
	if t := r.lookup(); t != nil {
		r.mu.Lock()
		t.site, t.kind = site, "stalled"
		r.mu.Unlock()
	}
	r.mu.Lock()
	g := r.stallGate
	r.mu.Unlock()
	if g == nil {
		<-make(chan struct{})
	}
	<-g // (closed by ReleaseStalled, after the run has been judged)
}

// Recv replaces <-ch.
func Recv[T any, C interface{ ~chan T | ~<-chan T }](ch C, site string) T {
	Pre(site)
	v := <-(<-chan T)(ch)
	noteRecv(ch, site)
	Post(site)
	return v
}

// Recv2 replaces v, ok := <-ch.
func Recv2[T any, C interface{ ~chan T | ~<-chan T }](ch C, site string) (T, bool) {
	Pre(site)
	v, ok := <-(<-chan T)(ch)
	noteRecv(ch, site)
	Post(site)
	return v, ok
}

// Close replaces close(ch).
func Close[T any, C interface{ ~chan T | ~chan<- T }](ch C, site string) {
	Pre(site)
	if r := active(); r != nil {
		r.raceSend(any(ch))
	}
	close((chan<- T)(ch))
	Post(site)
}

func noteRecv(ch any, site string) {
	if r := active(); r != nil {
		r.raceRecv(ch)
	}
}

// NoteSend is called right before a send statement executes (level 2 only).
func NoteSend(ch any) {
	if r := active(); r != nil {
		r.raceSend(ch)
	}
}

// NoteRecv is called right after a receive in a select clause (level 2 only).
func NoteRecv(ch any) {
	if r := active(); r != nil {
		r.raceRecv(ch)
	}
}

// ---- fake-clock helper ----------------------------------------------------------

// SleepFake advances the bubble's fake clock (call from the scheduler goroutine only).
func SleepFake(d time.Duration) { time.Sleep(d) }

// CurrentTask returns the task executing the caller (or nil outside a run).
func CurrentTask() *Task {
	r := active()
	if r == nil {
		return nil
	}
	return r.lookup()
}

// Wait0 replaces the statement x.Wait().
func Wait0[F func() | func() error](site string, f F) {
	Pre(site)
	switch g := any(f).(type) {
	case func():
		g()
	case func() error:
		_ = g()
	}
	if r := active(); r != nil {
		r.raceWaited(false)
	}
	Post(site)
}

// WaitErr replaces x.Wait() in expression context.
func WaitErr(site string, f func() error) error {
	Pre(site)
	err := f()
	if r := active(); r != nil {
		r.raceWaited(true)
	}
	Post(site)
	return err
}
