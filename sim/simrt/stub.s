// empty: allows bodyless linkname'd function declarations in this package
