package simrt

import (
	"fmt"
	"reflect"
	"sort"
	"sync"
	"unsafe"
)

// Vector-clock data-race detector over the simulated trace (level-2 instrumentation).
//
// Happens-before edges come only from the program's own synchronisation, never from the
// simulator's parking: spawn, channel send -> receive, receive -> completion of a send
// (added for every channel, which over-approximates for buffered ones), close -> receive,
// unlock -> lock, WaitGroup.Done -> Wait, cancel -> receive from Done(), end of an
// errgroup function -> Wait / group cancellation. Where an edge cannot be attributed
// exactly (which send a receive matched, which WaitGroup or context is meant) the
// detector ADDS edges, so it can miss races but cannot invent one.

type vclock map[int]int

func (v vclock) clone() vclock {
	c := make(vclock, len(v)+1)
	for k, x := range v {
		c[k] = x
	}
	return c
}

func (v vclock) join(o vclock) {
	for k, x := range o {
		if x > v[k] {
			v[k] = x
		}
	}
}

type accessRec struct {
	task  int
	clock int
	site  string
	tid   string
}

type shadow struct {
	write *accessRec
	reads map[int]*accessRec
}

type raceState struct {
	tidx    map[*Task]int
	vc      map[*Task]vclock
	chSend  map[uintptr]vclock
	chRecv  map[uintptr]vclock
	locks   map[any]vclock
	cancel  vclock
	wg      vclock
	wgs     map[*sync.WaitGroup]vclock
	eg      vclock
	mem     map[uintptr]*shadow
	reports map[string]string
	order   []string
	Accesses int
}

// EnableRace switches the detector on for this run (before Begin).
func (r *Run) EnableRace() {
	r.race = &raceState{
		tidx: map[*Task]int{}, vc: map[*Task]vclock{}, chSend: map[uintptr]vclock{}, chRecv: map[uintptr]vclock{},
		locks: map[any]vclock{}, cancel: vclock{}, wg: vclock{}, wgs: map[*sync.WaitGroup]vclock{}, eg: vclock{}, mem: map[uintptr]*shadow{}, reports: map[string]string{},
	}
	r.OnAcquire = func(t *Task, m any) { r.raceAcquire(t, m) }
	r.OnRelease = func(t *Task, m any) { r.raceRelease(t, m) }
}

// Races returns the distinct races found, one description per (site, site) pair.
func (r *Run) Races() []string {
	if r.race == nil {
		return nil
	}
	// sorted by the (site, site) key: the list must not depend on map iteration order
	keys := append([]string(nil), r.race.order...)
	sort.Strings(keys)
	out := make([]string, 0, len(keys))
	for _, k := range keys {
		out = append(out, r.race.reports[k])
	}
	return out
}

func (r *Run) RaceAccesses() int {
	if r.race == nil {
		return 0
	}
	return r.race.Accesses
}

// clockOf returns the task's vector clock (call with r.mu held).
func (rs *raceState) clockOf(t *Task) (int, vclock) {
	i, ok := rs.tidx[t]
	if !ok {
		i = len(rs.tidx) + 1
		rs.tidx[t] = i
		rs.vc[t] = vclock{i: 1}
	}
	return i, rs.vc[t]
}

func (rs *raceState) tick(t *Task) {
	i, v := rs.clockOf(t)
	v[i]++
}

func (r *Run) raceSpawn(parent, child *Task) {
	rs := r.race
	if rs == nil {
		return
	}
	r.mu.Lock()
	defer r.mu.Unlock()
	ci, _ := rs.clockOf(child)
	if parent != nil {
		_, pv := rs.clockOf(parent)
		nv := pv.clone()
		nv[ci] = 1
		rs.vc[child] = nv
		rs.tick(parent)
	}
}

func chanKey(ch any) uintptr {
	v := reflect.ValueOf(ch)
	if v.Kind() != reflect.Chan {
		return 0
	}
	return v.Pointer()
}

// publish joins the task's clock into dst and ticks the task.
func (rs *raceState) publish(t *Task, dst vclock) {
	_, v := rs.clockOf(t)
	dst.join(v)
	rs.tick(t)
}

func (rs *raceState) acquire(t *Task, src vclock) {
	_, v := rs.clockOf(t)
	v.join(src)
}

func (r *Run) withTask(f func(rs *raceState, t *Task)) {
	rs := r.race
	if rs == nil {
		return
	}
	t := r.lookup()
	if t == nil {
		return
	}
	r.mu.Lock()
	f(rs, t)
	r.mu.Unlock()
}

func (r *Run) raceSend(ch any) {
	k := chanKey(ch)
	r.withTask(func(rs *raceState, t *Task) {
		v := rs.chSend[k]
		if v == nil {
			v = vclock{}
			rs.chSend[k] = v
		}
		rs.publish(t, v)
	})
}

func (r *Run) raceSent(ch any) {
	k := chanKey(ch)
	r.withTask(func(rs *raceState, t *Task) {
		if v := rs.chRecv[k]; v != nil {
			rs.acquire(t, v)
		}
	})
}

func (r *Run) raceRecv(ch any) {
	k := chanKey(ch)
	r.withTask(func(rs *raceState, t *Task) {
		if v := rs.chSend[k]; v != nil {
			rs.acquire(t, v)
		}
		v := rs.chRecv[k]
		if v == nil {
			v = vclock{}
			rs.chRecv[k] = v
		}
		rs.publish(t, v)
	})
}

func (r *Run) raceAcquire(t *Task, m any) {
	rs := r.race
	r.mu.Lock()
	if v := rs.locks[m]; v != nil {
		rs.acquire(t, v)
	}
	r.mu.Unlock()
}

func (r *Run) raceRelease(t *Task, m any) {
	rs := r.race
	r.mu.Lock()
	v := rs.locks[m]
	if v == nil {
		v = vclock{}
		rs.locks[m] = v
	}
	rs.publish(t, v)
	r.mu.Unlock()
}

// ---- hooks called by level-2 instrumented code ------------------------------------------------------

// NoteSent is called after a send completed.
func NoteSent(ch any) {
	if r := active(); r != nil {
		r.raceSent(ch)
	}
}

// Cancel wraps the call of a context.CancelFunc.
func Cancel(f func()) {
	if r := active(); r != nil {
		r.withTask(func(rs *raceState, t *Task) { rs.publish(t, rs.cancel) })
	}
	f()
}

// NoteDone is called after a receive from a context's Done channel.
func NoteDone() {
	if r := active(); r != nil {
		r.withTask(func(rs *raceState, t *Task) { rs.acquire(t, rs.cancel) })
	}
}

// EnvCancel is called by the harness when the environment cancels the caller's context:
// an external event that carries no clock of any task.
func (r *Run) EnvCancel() {}

// WgDone wraps WaitGroup.Done.
func WgDone(f func()) {
	if r := active(); r != nil {
		r.withTask(func(rs *raceState, t *Task) { rs.publish(t, rs.wg) })
	}
	f()
}

func (r *Run) raceWaited(errgroup bool) {
	r.withTask(func(rs *raceState, t *Task) {
		rs.acquire(t, rs.wg)
		if errgroup {
			rs.acquire(t, rs.eg)
		}
	})
}

func (r *Run) raceEgEnd(t *Task) {
	rs := r.race
	if rs == nil {
		return
	}
	r.mu.Lock()
	rs.publish(t, rs.eg)
	// the end of an errgroup function may cancel the group's context
	_, v := rs.clockOf(t)
	rs.cancel.join(v)
	r.mu.Unlock()
}

// RP notes a read of *p and returns p.
func RP[T any](p *T, site string) *T {
	if r := active(); r != nil && r.race != nil {
		r.access(uintptr(unsafe.Pointer(p)), site, false)
	}
	return p
}

// WP notes a write of *p and returns p.
func WP[T any](p *T, site string) *T {
	if r := active(); r != nil && r.race != nil {
		r.access(uintptr(unsafe.Pointer(p)), site, true)
	}
	return p
}

func (r *Run) access(addr uintptr, site string, write bool) {
	if onOwnStack(addr) {
		// a variable on the accessing goroutine's own stack is not shared with anybody, and
		// stack memory that is given back (a goroutine ends, a stack is copied) can become a
		// heap object within the same run: its old shadow entry would fake a race
		return
	}
	t := r.lookup()
	if t == nil {
		return
	}
	r.mu.Lock()
	defer r.mu.Unlock()
	rs := r.race
	rs.Accesses++
	ti, v := rs.clockOf(t)
	sh := rs.mem[addr]
	if sh == nil {
		sh = &shadow{}
		rs.mem[addr] = sh
	}
	me := &accessRec{task: ti, clock: v[ti], site: site, tid: t.ID}
	if w := sh.write; w != nil && w.task != ti && w.clock > v[w.task] {
		rs.report(w, "write", me, kindOf(write))
	}
	if write {
		tasks := make([]int, 0, len(sh.reads))
		for k := range sh.reads {
			tasks = append(tasks, k)
		}
		sort.Ints(tasks)
		for _, k := range tasks {
			rd := sh.reads[k]
			if rd.task != ti && rd.clock > v[rd.task] {
				rs.report(rd, "read", me, "write")
			}
		}
		sh.write = me
		sh.reads = nil
		return
	}
	if sh.reads == nil {
		sh.reads = map[int]*accessRec{}
	}
	sh.reads[ti] = me
}

func kindOf(write bool) string {
	if write {
		return "write"
	}
	return "read"
}

func (rs *raceState) report(a *accessRec, ak string, b *accessRec, bk string) {
	sa, sb := classOf(a.site), classOf(b.site)
	pair := []string{ak + " " + sa, bk + " " + sb}
	sort.Strings(pair)
	key := pair[0] + " / " + pair[1]
	if _, ok := rs.reports[key]; ok {
		return
	}
	rs.reports[key] = fmt.Sprintf("%s\n  %s at %s by task %s\n  %s at %s by task %s\n  (no happens-before edge between the two accesses)", key, ak, a.site, a.tid, bk, b.site, b.tid)
	rs.order = append(rs.order, key)
}

// NoteAccess lets a stub report an access to memory it owns (e.g. the user's writer) on
// behalf of the calling task.
func NoteAccess(addr uintptr, site string, write bool) {
	if r := active(); r != nil && r.race != nil {
		r.access(addr, site, write)
	}
}

// MP notes an access to the map m (element read/write, delete, range) and returns m.
func MP[M ~map[K]V, K comparable, V any](m M, site string, write bool) M {
	if m != nil {
		if r := active(); r != nil && r.race != nil {
			r.access(reflect.ValueOf(m).Pointer(), site, write)
		}
	}
	return m
}

// WgDoneOn replaces wg.Done() (level 2): the edge Done -> Wait is kept per WaitGroup.
func WgDoneOn(wg *sync.WaitGroup) {
	if r := active(); r != nil {
		r.withTask(func(rs *raceState, t *Task) {
			v := rs.wgs[wg]
			if v == nil {
				v = vclock{}
				rs.wgs[wg] = v
			}
			rs.publish(t, v)
		})
	}
	wg.Done()
}

// WgWaitOn replaces the statement wg.Wait() (level 2).
func WgWaitOn(site string, wg *sync.WaitGroup) {
	Pre(site)
	wg.Wait()
	if r := active(); r != nil {
		r.withTask(func(rs *raceState, t *Task) {
			if v := rs.wgs[wg]; v != nil {
				rs.acquire(t, v)
			}
		})
	}
	Post(site)
}
