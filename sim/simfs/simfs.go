// Package simfs is the disk seam of the gtree simulator: every filesystem call gtree
// issues is rewritten (in the instrumented scratch copy) to the function of the same
// name here, which records the operation, yields to the scheduler, injects a fault if
// the run's plan says so, confines the path to the run's jail and only then performs the
// real call. Without an installed Disk every function is a pass-through.
package simfs

import (
	"io/fs"
	"os"
	"path/filepath"
	"strings"
	"sync"
	"sync/atomic"
	"syscall"
	"time"

	"github.com/ddddddO/gtree/simrt"
)

// OpRec is one recorded disk operation.
type OpRec struct {
	Idx      int    `json:"i"`
	Op       string `json:"op"`
	Path     string `json:"path"`
	Mutating bool   `json:"mut,omitempty"`
	Err      string `json:"err,omitempty"`
	Injected bool   `json:"inj,omitempty"`
	Escape   bool   `json:"escape,omitempty"`
	Task     string `json:"task,omitempty"`
}

// Disk is the per-run state of the seam.
type Disk struct {
	mu   sync.Mutex
	Jail string // absolute directory every path must stay in
	Ops  []OpRec
	// fault plan
	FailAt     map[int]syscall.Errno // transient: fail exactly op #i
	FailFrom   int                   // persistent: fail every matching op with index >= FailFrom (-1: off)
	FailErrno  syscall.Errno
	OnlyMut    bool // persistent faults hit only mutating operations (disk full / read-only)
	OnlyRead   bool // persistent faults hit only non-mutating operations
	Yield      bool // park before every operation (massive runs)
	Fired      int
	FiredFirst int // index of the first injected fault (-1 none)
}

func NewDisk(jail string) *Disk {
	return &Disk{Jail: jail, FailAt: map[int]syscall.Errno{}, FailFrom: -1, FiredFirst: -1}
}

var disk atomic.Pointer[Disk]

func Install(d *Disk) { disk.Store(d) }
func Uninstall()      { disk.Store(nil) }

func abs(p string) string {
	if !filepath.IsAbs(p) {
		wd, _ := os.Getwd()
		p = filepath.Join(wd, p)
	}
	return filepath.Clean(p)
}

// begin records the operation and decides about fault injection. It returns a non-nil
// error if the operation must not be performed.
func begin(op, path string, mutating bool) (*Disk, int, error) {
	d := disk.Load()
	if d == nil || simrt.Stray() {
		return nil, -1, nil
	}
	if d.Yield {
		simrt.Yield("fs:" + op)
	}
	task := ""
	if t := simrt.CurrentTask(); t != nil {
		task = t.ID
	}
	d.mu.Lock()
	defer d.mu.Unlock()
	i := len(d.Ops)
	rec := OpRec{Idx: i, Op: op, Path: path, Mutating: mutating, Task: task}
	ap := abs(path)
	if d.Jail != "" && ap != d.Jail && !strings.HasPrefix(ap, d.Jail+string(filepath.Separator)) {
		rec.Escape = true
		rec.Err = "EPERM(jail)"
		d.Ops = append(d.Ops, rec)
		return d, i, &os.PathError{Op: op, Path: path, Err: syscall.EPERM}
	}
	var errno syscall.Errno
	if e, ok := d.FailAt[i]; ok {
		errno = e
	} else if d.FailFrom >= 0 && i >= d.FailFrom && (!d.OnlyMut || mutating) && (!d.OnlyRead || !mutating) {
		errno = d.FailErrno
	}
	if errno != 0 {
		rec.Err = errno.Error()
		rec.Injected = true
		d.Fired++
		if d.FiredFirst < 0 {
			d.FiredFirst = i
		}
		d.Ops = append(d.Ops, rec)
		return d, i, &os.PathError{Op: op, Path: path, Err: errno}
	}
	d.Ops = append(d.Ops, rec)
	return d, i, nil
}

func end(d *Disk, i int, err error) {
	if d == nil || err == nil {
		return
	}
	d.mu.Lock()
	if i >= 0 && i < len(d.Ops) {
		d.Ops[i].Err = err.Error()
	}
	d.mu.Unlock()
}

// Snapshot of recorded operations.
func (d *Disk) Records() []OpRec {
	d.mu.Lock()
	defer d.mu.Unlock()
	out := make([]OpRec, len(d.Ops))
	copy(out, d.Ops)
	return out
}

// File wraps *os.File so that Close (and writes) pass through the seam.
type File struct {
	*os.File
	path string
}

func (f *File) Close() error {
	d, i, err := begin("close", f.path, true)
	if err != nil {
		f.File.Close()
		return err
	}
	err = f.File.Close()
	end(d, i, err)
	return err
}

func (f *File) Write(p []byte) (int, error) {
	d, i, err := begin("write", f.path, true)
	if err != nil {
		return 0, err
	}
	n, err := f.File.Write(p)
	end(d, i, err)
	return n, err
}

func (f *File) WriteString(s string) (int, error) { return f.Write([]byte(s)) }

func wrapFile(f *os.File, path string, err error) (*File, error) {
	if err != nil {
		return nil, err
	}
	return &File{File: f, path: path}, nil
}

func Stat(name string) (fs.FileInfo, error) {
	d, i, err := begin("stat", name, false)
	if err != nil {
		return nil, err
	}
	fi, err := os.Stat(name)
	end(d, i, err)
	return fi, err
}

func Lstat(name string) (fs.FileInfo, error) {
	d, i, err := begin("lstat", name, false)
	if err != nil {
		return nil, err
	}
	fi, err := os.Lstat(name)
	end(d, i, err)
	return fi, err
}

func Mkdir(name string, perm os.FileMode) error {
	d, i, err := begin("mkdir", name, true)
	if err != nil {
		return err
	}
	err = os.Mkdir(name, perm)
	end(d, i, err)
	return err
}

func MkdirAll(path string, perm os.FileMode) error {
	d, i, err := begin("mkdirall", path, true)
	if err != nil {
		return err
	}
	err = os.MkdirAll(path, perm)
	end(d, i, err)
	return err
}

func Create(name string) (*File, error) {
	d, i, err := begin("create", name, true)
	if err != nil {
		return nil, err
	}
	f, err := os.Create(name)
	end(d, i, err)
	return wrapFile(f, name, err)
}

func Open(name string) (*File, error) {
	d, i, err := begin("open", name, false)
	if err != nil {
		return nil, err
	}
	f, err := os.Open(name)
	end(d, i, err)
	return wrapFile(f, name, err)
}

func OpenFile(name string, flag int, perm os.FileMode) (*File, error) {
	mut := flag&(os.O_WRONLY|os.O_RDWR|os.O_CREATE|os.O_TRUNC|os.O_APPEND) != 0
	d, i, err := begin("openfile", name, mut)
	if err != nil {
		return nil, err
	}
	f, err := os.OpenFile(name, flag, perm)
	end(d, i, err)
	return wrapFile(f, name, err)
}

func Remove(name string) error {
	d, i, err := begin("remove", name, true)
	if err != nil {
		return err
	}
	err = os.Remove(name)
	end(d, i, err)
	return err
}

func RemoveAll(path string) error {
	d, i, err := begin("removeall", path, true)
	if err != nil {
		return err
	}
	err = os.RemoveAll(path)
	end(d, i, err)
	return err
}

func Rename(oldpath, newpath string) error {
	d, i, err := begin("rename", oldpath, true)
	if err != nil {
		return err
	}
	if d != nil {
		if _, _, err2 := begin("rename-to", newpath, true); err2 != nil {
			return err2
		}
	}
	err = os.Rename(oldpath, newpath)
	end(d, i, err)
	return err
}

func ReadDir(name string) ([]os.DirEntry, error) {
	d, i, err := begin("readdir", name, false)
	if err != nil {
		return nil, err
	}
	es, err := os.ReadDir(name)
	end(d, i, err)
	return es, err
}

func ReadFile(name string) ([]byte, error) {
	d, i, err := begin("readfile", name, false)
	if err != nil {
		return nil, err
	}
	b, err := os.ReadFile(name)
	end(d, i, err)
	return b, err
}

func WriteFile(name string, data []byte, perm os.FileMode) error {
	d, i, err := begin("writefile", name, true)
	if err != nil {
		return err
	}
	err = os.WriteFile(name, data, perm)
	end(d, i, err)
	return err
}

func Symlink(oldname, newname string) error {
	d, i, err := begin("symlink", newname, true)
	if err != nil {
		return err
	}
	err = os.Symlink(oldname, newname)
	end(d, i, err)
	return err
}

func Link(oldname, newname string) error {
	d, i, err := begin("link", newname, true)
	if err != nil {
		return err
	}
	err = os.Link(oldname, newname)
	end(d, i, err)
	return err
}

func Chmod(name string, mode os.FileMode) error {
	d, i, err := begin("chmod", name, true)
	if err != nil {
		return err
	}
	err = os.Chmod(name, mode)
	end(d, i, err)
	return err
}

func Chtimes(name string, atime, mtime time.Time) error {
	d, i, err := begin("chtimes", name, true)
	if err != nil {
		return err
	}
	err = os.Chtimes(name, atime, mtime)
	end(d, i, err)
	return err
}

func Truncate(name string, size int64) error {
	d, i, err := begin("truncate", name, true)
	if err != nil {
		return err
	}
	err = os.Truncate(name, size)
	end(d, i, err)
	return err
}

func MkdirTemp(dir, pattern string) (string, error) {
	d, i, err := begin("mkdirtemp", filepath.Join(dir, pattern), true)
	if err != nil {
		return "", err
	}
	s, err := os.MkdirTemp(dir, pattern)
	end(d, i, err)
	return s, err
}

func CreateTemp(dir, pattern string) (*File, error) {
	d, i, err := begin("createtemp", filepath.Join(dir, pattern), true)
	if err != nil {
		return nil, err
	}
	f, err := os.CreateTemp(dir, pattern)
	end(d, i, err)
	if err != nil {
		return nil, err
	}
	return &File{File: f, path: f.Name()}, nil
}

// DirFS wraps os.DirFS so that the operations fs.WalkDir performs are visible.
func DirFS(dir string) fs.FS {
	return dirFS{root: dir, inner: os.DirFS(dir)}
}

type dirFS struct {
	root  string
	inner fs.FS
}

func (f dirFS) full(name string) string { return filepath.Join(f.root, name) }

func (f dirFS) Open(name string) (fs.File, error) {
	d, i, err := begin("fs.open", f.full(name), false)
	if err != nil {
		return nil, &fs.PathError{Op: "open", Path: name, Err: err.(*os.PathError).Err}
	}
	fl, err := f.inner.Open(name)
	end(d, i, err)
	return fl, err
}

func (f dirFS) Stat(name string) (fs.FileInfo, error) {
	d, i, err := begin("fs.stat", f.full(name), false)
	if err != nil {
		return nil, &fs.PathError{Op: "stat", Path: name, Err: err.(*os.PathError).Err}
	}
	fi, err := fs.Stat(f.inner, name)
	end(d, i, err)
	return fi, err
}

func (f dirFS) ReadDir(name string) ([]fs.DirEntry, error) {
	d, i, err := begin("fs.readdir", f.full(name), false)
	if err != nil {
		return nil, &fs.PathError{Op: "readdir", Path: name, Err: err.(*os.PathError).Err}
	}
	es, err := fs.ReadDir(f.inner, name)
	end(d, i, err)
	return es, err
}

func (f dirFS) ReadFile(name string) ([]byte, error) {
	d, i, err := begin("fs.readfile", f.full(name), false)
	if err != nil {
		return nil, &fs.PathError{Op: "readfile", Path: name, Err: err.(*os.PathError).Err}
	}
	b, err := fs.ReadFile(f.inner, name)
	end(d, i, err)
	return b, err
}
