module verif/instrument

go 1.24
