// Command instrument produces the simulated build of gtree: it copies the non-test
// sources of the root package and ./markdown from -src to -dst and rewrites every
// construct that can block, wake another goroutine, spawn a goroutine or touch the
// filesystem into a call to the simulator runtime (package simrt / simfs).
//
// Level 1 (default) is purely syntactic apart from range-over-channel, which needs type
// information. Level 2 additionally wraps shared-memory accesses (fields reached through
// pointers and package-level variables) for the vector-clock race detector.
package main

import (
	"bytes"
	"flag"
	"fmt"
	"go/ast"
	"go/build/constraint"
	"go/importer"
	"go/parser"
	"go/printer"
	"go/token"
	"go/types"
	"os"
	"path/filepath"
	"regexp"
	"sort"
	"strconv"
	"strings"
)

var (
	src   = flag.String("src", "/repo", "gtree source tree")
	dst   = flag.String("dst", "", "destination directory (scratch module root)")
	level = flag.Int("level", 1, "1 = scheduling/fs seams, 2 = + memory accesses")
	mod   = flag.String("mod", "github.com/ddddddO/gtree", "module path")
	quiet = flag.Bool("q", false, "quiet")
)

var osFuncs = map[string]bool{
	"Stat": true, "Lstat": true, "Mkdir": true, "MkdirAll": true, "Create": true, "Open": true,
	"OpenFile": true, "Remove": true, "RemoveAll": true, "Rename": true, "ReadDir": true,
	"ReadFile": true, "WriteFile": true, "Symlink": true, "Chmod": true, "DirFS": true,
	"MkdirTemp": true, "CreateTemp": true, "Truncate": true, "Chtimes": true, "Link": true,
}

type stats struct {
	sites       map[string]int
	unsupported []string
}

var st = stats{sites: map[string]int{}}

func main() {
	flag.Parse()
	if *dst == "" {
		fatal("need -dst")
	}
	for _, pkg := range []string{".", "markdown"} {
		if err := doPackage(pkg); err != nil {
			fatal("%v", err)
		}
	}
	for _, f := range []string{"go.mod", "go.sum"} {
		b, err := os.ReadFile(filepath.Join(*src, f))
		if err != nil {
			fatal("%v", err)
		}
		if err := os.WriteFile(filepath.Join(*dst, f), b, 0o644); err != nil {
			fatal("%v", err)
		}
	}
	if !*quiet {
		keys := make([]string, 0, len(st.sites))
		total := 0
		for k, n := range st.sites {
			keys = append(keys, k)
			total += n
		}
		sort.Strings(keys)
		fmt.Printf("instrumented %d sites:", total)
		for _, k := range keys {
			fmt.Printf(" %s=%d", k, st.sites[k])
		}
		fmt.Println()
		for _, u := range st.unsupported {
			fmt.Println("UNSUPPORTED:", u)
		}
	}
}

func fatal(f string, a ...any) {
	fmt.Fprintf(os.Stderr, "instrument: "+f+"\n", a...)
	os.Exit(2)
}

func wantFile(name string, content []byte) bool {
	if !strings.HasSuffix(name, ".go") || strings.HasSuffix(name, "_test.go") {
		return false
	}
	// honour build constraints: default build, no tinywasm tag
	for _, line := range strings.Split(string(content), "\n") {
		t := strings.TrimSpace(line)
		if strings.HasPrefix(t, "package ") {
			break
		}
		if constraint.IsGoBuild(t) {
			x, err := constraint.Parse(t)
			if err != nil {
				return true
			}
			return x.Eval(func(tag string) bool {
				switch tag {
				case "linux", "amd64", "unix", "gc":
					return true
				}
				return strings.HasPrefix(tag, "go1.")
			})
		}
	}
	return true
}

type fileCtx struct {
	fset  *token.FileSet
	file  *ast.File
	name  string
	info  *types.Info
	tmpN  int
	needs map[string]bool // imports to add: "simrt", "simfs"
	fn    string          // enclosing function declaration
}

func doPackage(rel string) error {
	dir := filepath.Join(*src, rel)
	ents, err := os.ReadDir(dir)
	if err != nil {
		return err
	}
	fset := token.NewFileSet()
	var files []*ast.File
	var names []string
	for _, e := range ents {
		if e.IsDir() {
			continue
		}
		b, err := os.ReadFile(filepath.Join(dir, e.Name()))
		if err != nil {
			return err
		}
		if !wantFile(e.Name(), b) {
			continue
		}
		f, err := parser.ParseFile(fset, filepath.Join(dir, e.Name()), b, parser.ParseComments)
		if err != nil {
			return fmt.Errorf("parse %s: %v", e.Name(), err)
		}
		files = append(files, f)
		names = append(names, e.Name())
	}
	// type information (best effort)
	info := &types.Info{
		Types: map[ast.Expr]types.TypeAndValue{},
		Uses:  map[*ast.Ident]types.Object{},
		Defs:  map[*ast.Ident]types.Object{},
		Selections: map[*ast.SelectorExpr]*types.Selection{},
	}
	cwd, _ := os.Getwd()
	os.Chdir(*src)
	conf := types.Config{
		Importer: importer.ForCompiler(fset, "source", nil),
		Error:    func(error) {},
	}
	nerr := 0
	conf.Error = func(err error) {
		nerr++
		if nerr <= 3 && !*quiet {
			fmt.Println("typecheck:", err)
		}
	}
	conf.Check(*mod, fset, files, info)
	if !*quiet {
		fmt.Printf("package %s: %d files, %d type errors\n", rel, len(files), nerr)
	}
	os.Chdir(cwd)

	out := filepath.Join(*dst, rel)
	if err := os.MkdirAll(out, 0o755); err != nil {
		return err
	}
	pkgName := ""
	if len(files) > 0 {
		pkgName = files[0].Name.Name
	}
	resetSrc := genReset(fset, files, info, pkgName)
	for i, f := range files {
		fc := &fileCtx{fset: fset, file: f, name: names[i], info: info, needs: map[string]bool{}}
		fc.rewrite()
		var buf bytes.Buffer
		if err := printer.Fprint(&buf, fset, f); err != nil {
			return fmt.Errorf("print %s: %v", names[i], err)
		}
		if err := os.WriteFile(filepath.Join(out, names[i]), buf.Bytes(), 0o644); err != nil {
			return err
		}
	}
	if resetSrc != "" {
		if err := os.WriteFile(filepath.Join(out, "zz_simreset_gen.go"), []byte(resetSrc), 0o644); err != nil {
			return err
		}
	}
	return nil
}

var syncTypeRx = regexp.MustCompile(`\bsync\.(Mutex|RWMutex|Pool|Once)\b`)

// genReset generates SimResetGlobals(), which puts every package-level variable back to
// its initial value (zero value, or its initialiser re-evaluated in initialisation order),
// so that the harness can start every case from the package state of a fresh process.
// Variables of type error keep their value (sentinel identity); "_" variables are skipped.
// The source is produced from the ORIGINAL (not yet instrumented) syntax.
func genReset(fset *token.FileSet, files []*ast.File, info *types.Info, pkgName string) string {
	var body []string
	imports := map[string]string{} // path -> local name
	isErr := func(t types.Type) bool { return t != nil && t.String() == "error" }
	exprStr := func(e ast.Expr) string {
		var b bytes.Buffer
		printer.Fprint(&b, fset, e)
		ast.Inspect(e, func(n ast.Node) bool {
			if id, ok := n.(*ast.Ident); ok {
				if pn, ok := info.Uses[id].(*types.PkgName); ok {
					imports[pn.Imported().Path()] = pn.Name()
				}
			}
			return true
		})
		return b.String()
	}
	// zero-valued variables first
	for _, f := range files {
		for _, d := range f.Decls {
			gd, ok := d.(*ast.GenDecl)
			if !ok || gd.Tok != token.VAR {
				continue
			}
			for _, sp := range gd.Specs {
				vs := sp.(*ast.ValueSpec)
				if len(vs.Values) != 0 || vs.Type == nil {
					continue
				}
				for _, n := range vs.Names {
					if n.Name == "_" {
						continue
					}
					if obj, ok := info.Defs[n].(*types.Var); ok && isErr(obj.Type()) {
						continue
					}
					body = append(body, fmt.Sprintf("\t%s = *new(%s)", n.Name, exprStr(vs.Type)))
				}
			}
		}
	}
	for _, in := range info.InitOrder {
		var lhs []string
		skip := false
		for _, v := range in.Lhs {
			if v.Name() == "_" {
				lhs = append(lhs, "_")
				continue
			}
			if isErr(v.Type()) {
				skip = true
			}
			lhs = append(lhs, v.Name())
		}
		allBlank := true
		for _, l := range lhs {
			if l != "_" {
				allBlank = false
			}
		}
		if skip || allBlank {
			continue
		}
		body = append(body, fmt.Sprintf("\t%s = %s", strings.Join(lhs, ", "), exprStr(in.Rhs)))
	}
	all := strings.Join(body, "\n")
	if syncTypeRx.MatchString(all) {
		// the instrumented copy declares these variables with the simulator's types
		all = syncTypeRx.ReplaceAllString(all, "simrt.$1")
		imports[*mod+"/simrt"] = "simrt"
		if !strings.Contains(all, "sync.") {
			delete(imports, "sync")
		}
		body = []string{all}
	}
	var sb strings.Builder
	sb.WriteString("//go:build !tinywasm\n\npackage " + pkgName + "\n\n")
	paths := make([]string, 0, len(imports))
	for p := range imports {
		paths = append(paths, p)
	}
	sort.Strings(paths)
	if len(paths) > 0 {
		sb.WriteString("import (\n")
		for _, p := range paths {
			fmt.Fprintf(&sb, "\t%s %q\n", imports[p], p)
		}
		sb.WriteString(")\n\n")
	}
	sb.WriteString("// SimResetGlobals is generated by the simulator's instrumenter.\nfunc SimResetGlobals() {\n")
	sb.WriteString(strings.Join(body, "\n"))
	sb.WriteString("\n}\n")
	return sb.String()
}

func (fc *fileCtx) site(pos token.Pos, kind string) *ast.BasicLit {
	p := fc.fset.Position(pos)
	st.sites[kind]++
	return &ast.BasicLit{Kind: token.STRING, Value: strconv.Quote(fmt.Sprintf("%s:%d:%s@%s", filepath.Base(p.Filename), p.Line, kind, fc.fn))}
}

func (fc *fileCtx) tmp(prefix string) *ast.Ident {
	fc.tmpN++
	return ast.NewIdent(fmt.Sprintf("__sim%s%d", prefix, fc.tmpN))
}

func sel(pkg, name string) ast.Expr {
	return &ast.SelectorExpr{X: ast.NewIdent(pkg), Sel: ast.NewIdent(name)}
}

func call(fun ast.Expr, args ...ast.Expr) *ast.CallExpr {
	return &ast.CallExpr{Fun: fun, Args: args}
}

func (fc *fileCtx) rt(name string, args ...ast.Expr) *ast.CallExpr {
	fc.needs["simrt"] = true
	return call(sel("simrt", name), args...)
}

func (fc *fileCtx) rewrite() {
	f := fc.file
	// keep only the leading build-constraint comment group
	var keep []*ast.CommentGroup
	for _, cg := range f.Comments {
		if cg.End() < f.Package {
			for _, c := range cg.List {
				if constraint.IsGoBuild(c.Text) {
					keep = append(keep, cg)
					break
				}
			}
		}
	}
	f.Comments = keep
	f.Doc = nil

	osName, syncName := "", ""
	for _, im := range f.Imports {
		p, _ := strconv.Unquote(im.Path.Value)
		n := filepath.Base(p)
		if im.Name != nil {
			n = im.Name.Name
		}
		switch p {
		case "os":
			osName = n
		case "sync":
			syncName = n
		}
	}

	for _, d := range f.Decls {
		switch d := d.(type) {
		case *ast.FuncDecl:
			if d.Body != nil {
				fc.fn = d.Name.Name
				if d.Recv != nil && len(d.Recv.List) == 1 {
					fc.fn = recvName(d.Recv.List[0].Type) + "." + d.Name.Name
				}
				fc.block(d.Body)
				fc.fn = ""
			}
		case *ast.GenDecl:
			for _, s := range d.Specs {
				if vs, ok := s.(*ast.ValueSpec); ok {
					for i := range vs.Values {
						vs.Values[i] = fc.expr(vs.Values[i])
					}
				}
			}
		}
	}

	if *level >= 2 {
		fc.l2File()
	}

	// type- and package-level replacements (sync.Mutex, os.X)
	ast.Inspect(f, func(n ast.Node) bool {
		se, ok := n.(*ast.SelectorExpr)
		if !ok {
			return true
		}
		id, ok := se.X.(*ast.Ident)
		if !ok {
			return true
		}
		if syncName != "" && id.Name == syncName && (se.Sel.Name == "Mutex" || se.Sel.Name == "RWMutex" || se.Sel.Name == "Pool" || se.Sel.Name == "Once") && fc.isPkg(id) {
			id.Name = "simrt"
			fc.needs["simrt"] = true
			st.sites["mutex"]++
		}
		if osName != "" && id.Name == osName && osFuncs[se.Sel.Name] && fc.isPkg(id) {
			id.Name = "simfs"
			fc.needs["simfs"] = true
			st.sites["fs"]++
		}
		return true
	})

	// imports
	var add []ast.Spec
	for _, n := range []string{"simrt", "simfs"} {
		if fc.needs[n] {
			add = append(add, &ast.ImportSpec{Path: &ast.BasicLit{Kind: token.STRING, Value: strconv.Quote(*mod + "/" + n)}})
		}
	}
	if len(add) > 0 {
		gd := &ast.GenDecl{Tok: token.IMPORT, Lparen: 1, Specs: add}
		// insert after existing imports (imports must come first)
		idx := 0
		for i, d := range f.Decls {
			if g, ok := d.(*ast.GenDecl); ok && g.Tok == token.IMPORT {
				idx = i + 1
			}
		}
		f.Decls = append(f.Decls[:idx], append([]ast.Decl{gd}, f.Decls[idx:]...)...)
	}
	// keep possibly-unused imports alive
	if syncName != "" && syncName != "_" && syncName != "." {
		f.Decls = append(f.Decls, &ast.GenDecl{Tok: token.VAR, Specs: []ast.Spec{&ast.ValueSpec{
			Names: []*ast.Ident{ast.NewIdent("_")}, Type: sel(syncName, "Locker")}}})
	}
	if osName != "" && osName != "_" && osName != "." {
		f.Decls = append(f.Decls, &ast.GenDecl{Tok: token.VAR, Specs: []ast.Spec{&ast.ValueSpec{
			Names: []*ast.Ident{ast.NewIdent("_")}, Values: []ast.Expr{sel(osName, "Getpid")}}}})
	}
}

func recvName(e ast.Expr) string {
	switch t := e.(type) {
	case *ast.StarExpr:
		return recvName(t.X)
	case *ast.Ident:
		return t.Name
	case *ast.IndexExpr:
		return recvName(t.X)
	case *ast.IndexListExpr:
		return recvName(t.X)
	}
	return "?"
}

// isPkg reports whether id denotes an imported package (true if unknown).
func (fc *fileCtx) isPkg(id *ast.Ident) bool {
	if obj, ok := fc.info.Uses[id]; ok {
		_, isPkg := obj.(*types.PkgName)
		return isPkg
	}
	return true
}

func (fc *fileCtx) block(b *ast.BlockStmt) {
	if b == nil {
		return
	}
	b.List = fc.list(b.List)
}

func unlabel(s ast.Stmt) ast.Stmt {
	for {
		l, ok := s.(*ast.LabeledStmt)
		if !ok {
			return s
		}
		s = l.Stmt
	}
}

// setInner replaces the innermost statement below labels.
func setInner(s ast.Stmt, inner ast.Stmt) ast.Stmt {
	l, ok := s.(*ast.LabeledStmt)
	if !ok {
		return inner
	}
	l.Stmt = setInner(l.Stmt, inner)
	return l
}

func (fc *fileCtx) list(in []ast.Stmt) []ast.Stmt {
	var out []ast.Stmt
	for _, s := range in {
		pre, repl, post := fc.stmt(unlabel(s))
		out = append(out, pre...)
		out = append(out, setInner(s, repl))
		out = append(out, post...)
	}
	return out
}

func exprStmt(e ast.Expr) ast.Stmt { return &ast.ExprStmt{X: e} }

// stmt rewrites one (unlabelled) statement; pre/post are inserted around it in the
// enclosing list.
func (fc *fileCtx) stmt(s ast.Stmt) (pre []ast.Stmt, repl ast.Stmt, post []ast.Stmt) {
	repl = s
	switch s := s.(type) {
	case *ast.BlockStmt:
		fc.block(s)
	case *ast.IfStmt:
		if s.Init != nil {
			s.Init = fc.simple(s.Init)
		}
		s.Cond = fc.expr(s.Cond)
		fc.block(s.Body)
		if s.Else != nil {
			_, r, _ := fc.stmt(s.Else) // else is a block or an if: never yields pre/post
			s.Else = r
		}
	case *ast.ForStmt:
		if s.Init != nil {
			s.Init = fc.simple(s.Init)
		}
		if s.Cond != nil {
			s.Cond = fc.expr(s.Cond)
		}
		if s.Post != nil {
			s.Post = fc.simple(s.Post)
		}
		fc.block(s.Body)
	case *ast.RangeStmt:
		s.X = fc.expr(s.X)
		if fc.isChan(s.X) {
			return fc.rangeChan(s)
		}
		fc.block(s.Body)
	case *ast.SwitchStmt:
		if s.Init != nil {
			s.Init = fc.simple(s.Init)
		}
		if s.Tag != nil {
			s.Tag = fc.expr(s.Tag)
		}
		for _, c := range s.Body.List {
			cc := c.(*ast.CaseClause)
			for i := range cc.List {
				cc.List[i] = fc.expr(cc.List[i])
			}
			cc.Body = fc.list(cc.Body)
		}
	case *ast.TypeSwitchStmt:
		if s.Init != nil {
			s.Init = fc.simple(s.Init)
		}
		s.Assign = fc.simple(s.Assign)
		for _, c := range s.Body.List {
			cc := c.(*ast.CaseClause)
			cc.Body = fc.list(cc.Body)
		}
	case *ast.SelectStmt:
		site := fc.site(s.Pos(), "select")
		pre = append(pre, exprStmt(fc.rt("Pre", site)))
		for i, c := range s.Body.List {
			cc := c.(*ast.CommClause)
			// channel expressions inside Comm are left alone (the select is one operation)
			fc.commExprs(cc)
			body := fc.list(cc.Body)
			hook := []ast.Stmt{exprStmt(fc.rt("PostSel", site, &ast.BasicLit{Kind: token.INT, Value: strconv.Itoa(i)}))}
			if *level >= 2 {
				if ch := commRecvChan(cc); ch != nil {
					hook = append([]ast.Stmt{exprStmt(fc.rt("NoteRecv", ch))}, hook...)
				} else if commRecvDone(cc) {
					hook = append([]ast.Stmt{exprStmt(fc.rt("NoteDone"))}, hook...)
				}
				if ss, ok := cc.Comm.(*ast.SendStmt); ok {
					if id, ok := ss.Chan.(*ast.Ident); ok {
						pre = append(pre, exprStmt(fc.rt("NoteSend", ast.NewIdent(id.Name))))
						hook = append([]ast.Stmt{exprStmt(fc.rt("NoteSent", ast.NewIdent(id.Name)))}, hook...)
					}
				}
			}
			cc.Body = append(hook, body...)
		}
	case *ast.GoStmt:
		repl = fc.goStmt(s)
	case *ast.DeferStmt:
		s.Call = fc.expr(s.Call).(*ast.CallExpr)
	case *ast.SendStmt:
		s.Chan = fc.expr(s.Chan)
		s.Value = fc.expr(s.Value)
		site := fc.site(s.Pos(), "send")
		pre = append(pre, exprStmt(fc.rt("Pre", site)))
		if *level >= 2 {
			if id, ok := s.Chan.(*ast.Ident); ok {
				pre = append(pre, exprStmt(fc.rt("NoteSend", ast.NewIdent(id.Name))))
			}
		}
		if *level >= 2 {
			if id, ok := s.Chan.(*ast.Ident); ok {
				post = append(post, exprStmt(fc.rt("NoteSent", ast.NewIdent(id.Name))))
			}
		}
		post = append(post, exprStmt(fc.rt("Post", site)))
	case *ast.ExprStmt:
		if c, ok := s.X.(*ast.CallExpr); ok && isWaitCall(c) {
			site := fc.site(s.Pos(), "wait")
			fun := c.Fun.(*ast.SelectorExpr)
			if tv, ok := fc.info.Types[fun.X]; ok && isWaitGroup(tv.Type) && *level >= 2 {
				// per-object happens-before for WaitGroups (level 2)
				recv := fc.expr(fun.X)
				if _, isPtr := tv.Type.(*types.Pointer); !isPtr {
					recv = &ast.UnaryExpr{Op: token.AND, X: recv}
				}
				s.X = fc.rt("WgWaitOn", site, recv)
				return
			}
			fun.X = fc.expr(fun.X)
			s.X = fc.rt("Wait0", site, fun)
			return
		}
		s.X = fc.expr(s.X)
	case *ast.AssignStmt:
		if len(s.Rhs) == 1 && len(s.Lhs) == 2 {
			if u, ok := s.Rhs[0].(*ast.UnaryExpr); ok && u.Op == token.ARROW {
				s.Rhs[0] = fc.rt("Recv2", fc.expr(u.X), fc.site(u.Pos(), "recv"))
				for i := range s.Lhs {
					s.Lhs[i] = fc.expr(s.Lhs[i])
				}
				return
			}
		}
		for i := range s.Lhs {
			s.Lhs[i] = fc.expr(s.Lhs[i])
		}
		for i := range s.Rhs {
			s.Rhs[i] = fc.expr(s.Rhs[i])
		}
	case *ast.DeclStmt:
		if gd, ok := s.Decl.(*ast.GenDecl); ok {
			for _, sp := range gd.Specs {
				if vs, ok := sp.(*ast.ValueSpec); ok {
					if len(vs.Values) == 1 && len(vs.Names) == 2 {
						if u, ok := vs.Values[0].(*ast.UnaryExpr); ok && u.Op == token.ARROW {
							vs.Values[0] = fc.rt("Recv2", fc.expr(u.X), fc.site(u.Pos(), "recv"))
							continue
						}
					}
					for i := range vs.Values {
						vs.Values[i] = fc.expr(vs.Values[i])
					}
				}
			}
		}
	case *ast.ReturnStmt:
		for i := range s.Results {
			s.Results[i] = fc.expr(s.Results[i])
		}
	case *ast.IncDecStmt:
		s.X = fc.expr(s.X)
	case *ast.LabeledStmt:
		// unreachable (unlabel), kept for completeness
		_, r, _ := fc.stmt(s.Stmt)
		s.Stmt = r
	}
	return
}

// simple rewrites a simple statement that cannot be surrounded by other statements
// (if/for/switch init and post); only expression-level rewrites apply.
func (fc *fileCtx) simple(s ast.Stmt) ast.Stmt {
	if _, ok := s.(*ast.SendStmt); ok {
		st.unsupported = append(st.unsupported, fc.fset.Position(s.Pos()).String()+": send in init/post statement")
		return s
	}
	pre, r, post := fc.stmt(s)
	if len(pre)+len(post) > 0 {
		st.unsupported = append(st.unsupported, fc.fset.Position(s.Pos()).String()+": statement needs hooks in init/post position")
	}
	return r
}

func (fc *fileCtx) commExprs(cc *ast.CommClause) {
	// nothing to rewrite inside the communication itself; nested function literals in
	// the value expression of a send are rare enough to ignore.
}

func commRecvChan(cc *ast.CommClause) ast.Expr {
	var e ast.Expr
	switch c := cc.Comm.(type) {
	case *ast.ExprStmt:
		e = c.X
	case *ast.AssignStmt:
		if len(c.Rhs) == 1 {
			e = c.Rhs[0]
		}
	}
	if u, ok := e.(*ast.UnaryExpr); ok && u.Op == token.ARROW {
		// only simple, side-effect free channel expressions are re-evaluated
		switch x := u.X.(type) {
		case *ast.Ident:
			return x
		case *ast.IndexExpr:
			if _, ok := x.X.(*ast.Ident); ok {
				if _, ok := x.Index.(*ast.Ident); ok {
					return x
				}
			}
		}
	}
	return nil
}

// commRecvDone: the clause receives from x.Done() (a context's done channel).
func commRecvDone(cc *ast.CommClause) bool {
	var e ast.Expr
	switch c := cc.Comm.(type) {
	case *ast.ExprStmt:
		e = c.X
	case *ast.AssignStmt:
		if len(c.Rhs) == 1 {
			e = c.Rhs[0]
		}
	}
	if u, ok := e.(*ast.UnaryExpr); ok && u.Op == token.ARROW {
		if c, ok := u.X.(*ast.CallExpr); ok && len(c.Args) == 0 {
			if se, ok := c.Fun.(*ast.SelectorExpr); ok && se.Sel.Name == "Done" {
				return true
			}
		}
	}
	return false
}

func isWaitCall(c *ast.CallExpr) bool {
	se, ok := c.Fun.(*ast.SelectorExpr)
	return ok && se.Sel.Name == "Wait" && len(c.Args) == 0
}

func (fc *fileCtx) isChan(e ast.Expr) bool {
	tv, ok := fc.info.Types[e]
	if !ok || tv.Type == nil {
		return false
	}
	_, isCh := tv.Type.Underlying().(*types.Chan)
	return isCh
}

func (fc *fileCtx) rangeChan(s *ast.RangeStmt) (pre []ast.Stmt, repl ast.Stmt, post []ast.Stmt) {
	site := fc.site(s.Pos(), "rangechan")
	chv := fc.tmp("ch")
	pre = append(pre, &ast.AssignStmt{Lhs: []ast.Expr{chv}, Tok: token.DEFINE, Rhs: []ast.Expr{s.X}})
	okv := fc.tmp("ok")
	var recv ast.Stmt
	key := s.Key
	if key == nil {
		key = ast.NewIdent("_")
	}
	if s.Tok == token.ASSIGN {
		recv = &ast.BlockStmt{} // placeholder, replaced below
		decl := &ast.DeclStmt{Decl: &ast.GenDecl{Tok: token.VAR, Specs: []ast.Spec{&ast.ValueSpec{Names: []*ast.Ident{okv}, Type: ast.NewIdent("bool")}}}}
		asg := &ast.AssignStmt{Lhs: []ast.Expr{key, okv}, Tok: token.ASSIGN, Rhs: []ast.Expr{fc.rt("Recv2", chv, site)}}
		fc.block(s.Body)
		body := append([]ast.Stmt{decl, asg, breakIfNot(okv)}, s.Body.List...)
		repl = &ast.ForStmt{Body: &ast.BlockStmt{List: body}}
		_ = recv
		return
	}
	asg := &ast.AssignStmt{Lhs: []ast.Expr{key, okv}, Tok: token.DEFINE, Rhs: []ast.Expr{fc.rt("Recv2", chv, site)}}
	fc.block(s.Body)
	body := append([]ast.Stmt{asg, breakIfNot(okv)}, s.Body.List...)
	repl = &ast.ForStmt{Body: &ast.BlockStmt{List: body}}
	return
}

func breakIfNot(v *ast.Ident) ast.Stmt {
	return &ast.IfStmt{Cond: &ast.UnaryExpr{Op: token.NOT, X: v}, Body: &ast.BlockStmt{List: []ast.Stmt{&ast.BranchStmt{Tok: token.BREAK}}}}
}

func (fc *fileCtx) goStmt(s *ast.GoStmt) ast.Stmt {
	site := fc.site(s.Pos(), "go")
	c := s.Call
	if fl, ok := c.Fun.(*ast.FuncLit); ok && len(c.Args) == 0 {
		fc.block(fl.Body)
		return exprStmt(fc.rt("Go", site, fl))
	}
	// evaluate callee and arguments now, run the call in the new task
	var stmts []ast.Stmt
	fv := fc.tmp("f")
	fun := fc.expr(c.Fun)
	stmts = append(stmts, &ast.AssignStmt{Lhs: []ast.Expr{fv}, Tok: token.DEFINE, Rhs: []ast.Expr{fun}})
	var args []ast.Expr
	for _, a := range c.Args {
		av := fc.tmp("a")
		stmts = append(stmts, &ast.AssignStmt{Lhs: []ast.Expr{av}, Tok: token.DEFINE, Rhs: []ast.Expr{fc.expr(a)}})
		args = append(args, av)
	}
	inner := &ast.CallExpr{Fun: fv, Args: args, Ellipsis: c.Ellipsis}
	lit := &ast.FuncLit{Type: &ast.FuncType{Params: &ast.FieldList{}}, Body: &ast.BlockStmt{List: []ast.Stmt{exprStmt(inner)}}}
	stmts = append(stmts, exprStmt(fc.rt("Go", site, lit)))
	return &ast.BlockStmt{List: stmts}
}

// expr rewrites an expression tree (receives, Wait calls, close, errgroup Go, nested
// function literals).
func (fc *fileCtx) expr(e ast.Expr) ast.Expr {
	switch e := e.(type) {
	case nil:
		return nil
	case *ast.FuncLit:
		fc.block(e.Body)
		return e
	case *ast.UnaryExpr:
		if e.Op == token.ARROW {
			return fc.rt("Recv", fc.expr(e.X), fc.site(e.Pos(), "recv"))
		}
		e.X = fc.expr(e.X)
		return e
	case *ast.CallExpr:
		// close(ch)
		if id, ok := e.Fun.(*ast.Ident); ok && id.Name == "close" && len(e.Args) == 1 && fc.isBuiltin(id) {
			return fc.rt("Close", fc.expr(e.Args[0]), fc.site(e.Pos(), "close"))
		}
		if se, ok := e.Fun.(*ast.SelectorExpr); ok {
			// x.Wait() in expression context (returns a value)
			if se.Sel.Name == "Wait" && len(e.Args) == 0 {
				se.X = fc.expr(se.X)
				return fc.rt("WaitErr", fc.site(e.Pos(), "wait"), se)
			}
			// eg.Go(fn)
			if se.Sel.Name == "Go" && len(e.Args) == 1 {
				if id, ok := se.X.(*ast.Ident); !ok || id.Name != "simrt" {
					se.X = fc.expr(se.X)
					e.Args[0] = fc.rt("WrapGoErr", fc.site(e.Pos(), "eggo"), fc.expr(e.Args[0]))
					return e
				}
			}
		}
		e.Fun = fc.expr(e.Fun)
		for i := range e.Args {
			e.Args[i] = fc.expr(e.Args[i])
		}
		return e
	case *ast.ParenExpr:
		e.X = fc.expr(e.X)
		return e
	case *ast.BinaryExpr:
		e.X = fc.expr(e.X)
		e.Y = fc.expr(e.Y)
		return e
	case *ast.SelectorExpr:
		e.X = fc.expr(e.X)
		return e
	case *ast.IndexExpr:
		e.X = fc.expr(e.X)
		e.Index = fc.expr(e.Index)
		return e
	case *ast.SliceExpr:
		e.X = fc.expr(e.X)
		e.Low, e.High, e.Max = fc.expr(e.Low), fc.expr(e.High), fc.expr(e.Max)
		return e
	case *ast.StarExpr:
		e.X = fc.expr(e.X)
		return e
	case *ast.TypeAssertExpr:
		e.X = fc.expr(e.X)
		return e
	case *ast.KeyValueExpr:
		e.Value = fc.expr(e.Value)
		return e
	case *ast.CompositeLit:
		for i := range e.Elts {
			e.Elts[i] = fc.expr(e.Elts[i])
		}
		return e
	}
	return e
}

func (fc *fileCtx) isBuiltin(id *ast.Ident) bool {
	if obj, ok := fc.info.Uses[id]; ok {
		_, b := obj.(*types.Builtin)
		return b
	}
	return true
}

// ---- level 2: memory accesses and the synchronisation the scheduler hooks do not see ------------------

func (fc *fileCtx) l2File() {
	for _, d := range fc.file.Decls {
		if fd, ok := d.(*ast.FuncDecl); ok && fd.Body != nil {
			fc.fn = fd.Name.Name
			if fd.Recv != nil && len(fd.Recv.List) == 1 {
				fc.fn = recvName(fd.Recv.List[0].Type) + "." + fd.Name.Name
			}
			fc.l2Block(fd.Body)
		}
	}
	fc.fn = ""
}

func (fc *fileCtx) l2Block(b *ast.BlockStmt) {
	if b == nil {
		return
	}
	fc.l2List(b.List)
}

func (fc *fileCtx) l2List(l []ast.Stmt) {
	for _, s := range l {
		fc.l2Stmt(s)
	}
}

func (fc *fileCtx) l2Stmt(s ast.Stmt) {
	switch s := s.(type) {
	case *ast.BlockStmt:
		fc.l2Block(s)
	case *ast.LabeledStmt:
		fc.l2Stmt(s.Stmt)
	case *ast.ExprStmt:
		s.X = fc.l2Expr(s.X, false)
	case *ast.AssignStmt:
		for i := range s.Rhs {
			s.Rhs[i] = fc.l2Expr(s.Rhs[i], false)
		}
		if s.Tok != token.DEFINE {
			for i := range s.Lhs {
				s.Lhs[i] = fc.l2Expr(s.Lhs[i], true)
			}
		}
	case *ast.IncDecStmt:
		s.X = fc.l2Expr(s.X, true)
	case *ast.SendStmt:
		s.Chan = fc.l2Expr(s.Chan, false)
		s.Value = fc.l2Expr(s.Value, false)
	case *ast.ReturnStmt:
		for i := range s.Results {
			s.Results[i] = fc.l2Expr(s.Results[i], false)
		}
	case *ast.IfStmt:
		if s.Init != nil {
			fc.l2Stmt(s.Init)
		}
		s.Cond = fc.l2Expr(s.Cond, false)
		fc.l2Block(s.Body)
		if s.Else != nil {
			fc.l2Stmt(s.Else)
		}
	case *ast.ForStmt:
		if s.Init != nil {
			fc.l2Stmt(s.Init)
		}
		if s.Cond != nil {
			s.Cond = fc.l2Expr(s.Cond, false)
		}
		if s.Post != nil {
			fc.l2Stmt(s.Post)
		}
		fc.l2Block(s.Body)
	case *ast.RangeStmt:
		rangeMap := fc.isMap(s.X)
		s.X = fc.l2Expr(s.X, false)
		if rangeMap {
			s.X = fc.wrapMap(s.X, s.For, false)
		}
		if s.Tok == token.ASSIGN {
			if s.Key != nil {
				s.Key = fc.l2Expr(s.Key, true)
			}
			if s.Value != nil {
				s.Value = fc.l2Expr(s.Value, true)
			}
		}
		fc.l2Block(s.Body)
	case *ast.SwitchStmt:
		if s.Init != nil {
			fc.l2Stmt(s.Init)
		}
		if s.Tag != nil {
			s.Tag = fc.l2Expr(s.Tag, false)
		}
		for _, c := range s.Body.List {
			cc := c.(*ast.CaseClause)
			for i := range cc.List {
				cc.List[i] = fc.l2Expr(cc.List[i], false)
			}
			fc.l2List(cc.Body)
		}
	case *ast.TypeSwitchStmt:
		if s.Init != nil {
			fc.l2Stmt(s.Init)
		}
		for _, c := range s.Body.List {
			fc.l2List(c.(*ast.CaseClause).Body)
		}
	case *ast.SelectStmt:
		for _, c := range s.Body.List {
			fc.l2List(c.(*ast.CommClause).Body)
		}
	case *ast.GoStmt:
		if e, ok := fc.l2Expr(s.Call, false).(*ast.CallExpr); ok {
			s.Call = e
		}
	case *ast.DeferStmt:
		if e, ok := fc.l2Expr(s.Call, false).(*ast.CallExpr); ok {
			s.Call = e
		}
	case *ast.DeclStmt:
		if gd, ok := s.Decl.(*ast.GenDecl); ok && gd.Tok == token.VAR {
			for _, sp := range gd.Specs {
				if vs, ok := sp.(*ast.ValueSpec); ok {
					for i := range vs.Values {
						vs.Values[i] = fc.l2Expr(vs.Values[i], false)
					}
				}
			}
		}
	}
}

func (fc *fileCtx) isTypeExpr(e ast.Expr) bool {
	tv, ok := fc.info.Types[e]
	return ok && tv.IsType()
}

func isSyncType(t types.Type) bool {
	for {
		if p, ok := t.(*types.Pointer); ok {
			t = p.Elem()
			continue
		}
		break
	}
	if n, ok := t.(*types.Named); ok && n.Obj().Pkg() != nil {
		switch n.Obj().Pkg().Path() {
		case "sync", "sync/atomic":
			return true
		}
	}
	return false
}

// fieldSel reports whether e is an addressable struct-field selection.
func (fc *fileCtx) fieldSel(e ast.Expr) (*ast.SelectorExpr, bool) {
	se, ok := e.(*ast.SelectorExpr)
	if !ok {
		return nil, false
	}
	sel, ok := fc.info.Selections[se]
	if !ok || sel.Kind() != types.FieldVal {
		return nil, false
	}
	return se, true
}

func (fc *fileCtx) wrapAccess(e ast.Expr, write bool) ast.Expr {
	name, kind := "RP", "rd"
	if write {
		name, kind = "WP", "wr"
	}
	st.sites["mem"+kind]++
	pos := e.Pos()
	if se, ok := e.(*ast.SelectorExpr); ok {
		pos = se.Sel.Pos() // the base may have been replaced by a node without position
	}
	p := fc.fset.Position(pos)
	site := &ast.BasicLit{Kind: token.STRING, Value: strconv.Quote(fmt.Sprintf("%s:%d:%s@%s", filepath.Base(p.Filename), p.Line, kind, fc.fn))}
	return &ast.ParenExpr{X: &ast.StarExpr{X: fc.rt(name, &ast.UnaryExpr{Op: token.AND, X: e}, site)}}
}

// l2Base processes the part of a field chain below the location itself.
func (fc *fileCtx) l2Base(se *ast.SelectorExpr) {
	if inner, ok := fc.fieldSel(se.X); ok {
		if tv, ok2 := fc.info.Types[se.X]; ok2 {
			if _, isPtr := tv.Type.Underlying().(*types.Pointer); !isPtr {
				// struct-valued field: same location, keep descending
				fc.l2Base(inner)
				return
			}
		}
	}
	se.X = fc.l2Expr(se.X, false)
}

func (fc *fileCtx) l2Expr(e ast.Expr, write bool) ast.Expr {
	switch e := e.(type) {
	case nil:
		return nil
	case *ast.Ident:
		obj, ok := fc.info.Uses[e]
		if !ok {
			return e
		}
		v, ok := obj.(*types.Var)
		if !ok || v.IsField() || v.Pkg() == nil || v.Parent() != v.Pkg().Scope() || e.Name == "_" {
			return e
		}
		if isSyncType(v.Type()) {
			return e
		}
		return fc.wrapAccess(e, write)
	case *ast.SelectorExpr:
		se, ok := fc.fieldSel(e)
		if !ok {
			if _, isSel := fc.info.Selections[e]; isSel {
				e.X = fc.l2Expr(e.X, false) // method value / method expression: receiver is read
			}
			return e
		}
		tv, ok := fc.info.Types[se]
		if !ok || !tv.Addressable() || isSyncType(tv.Type) {
			se.X = fc.l2Expr(se.X, false)
			return se
		}
		fc.l2Base(se)
		return fc.wrapAccess(se, write)
	case *ast.IndexExpr:
		if fc.isTypeExpr(e.Index) {
			return e // generic instantiation
		}
		isMap := fc.isMap(e.X)
		isSlice := fc.isSliceElem(e)
		pos := e.Lbrack
		e.X = fc.l2Expr(e.X, false)
		e.Index = fc.l2Expr(e.Index, false)
		if isMap {
			// an element access is an access to the map itself
			e.X = fc.wrapMap(e.X, pos, write)
		}
		if isSlice {
			// an element of a slice is a memory location of its own
			return fc.wrapAccessAt(e, pos, write)
		}
		return e
	case *ast.SliceExpr:
		e.X = fc.l2Expr(e.X, false)
		e.Low, e.High, e.Max = fc.l2Expr(e.Low, false), fc.l2Expr(e.High, false), fc.l2Expr(e.Max, false)
		return e
	case *ast.StarExpr:
		if fc.isTypeExpr(e) {
			return e
		}
		e.X = fc.l2Expr(e.X, false)
		return e
	case *ast.UnaryExpr:
		if e.Op == token.AND {
			if se, ok := fc.fieldSel(e.X); ok {
				fc.l2Base(se)
			}
			return e
		}
		if e.Op == token.ARROW {
			return e
		}
		e.X = fc.l2Expr(e.X, false)
		return e
	case *ast.BinaryExpr:
		e.X = fc.l2Expr(e.X, false)
		e.Y = fc.l2Expr(e.Y, false)
		return e
	case *ast.ParenExpr:
		if fc.isTypeExpr(e) {
			return e
		}
		e.X = fc.l2Expr(e.X, write)
		return e
	case *ast.TypeAssertExpr:
		e.X = fc.l2Expr(e.X, false)
		return e
	case *ast.KeyValueExpr:
		e.Value = fc.l2Expr(e.Value, false)
		return e
	case *ast.CompositeLit:
		for i := range e.Elts {
			e.Elts[i] = fc.l2Expr(e.Elts[i], false)
		}
		return e
	case *ast.FuncLit:
		fc.l2Block(e.Body)
		return e
	case *ast.CallExpr:
		// calls into the simulator runtime inserted by level 1: only their non-literal args
		if se, ok := e.Fun.(*ast.SelectorExpr); ok {
			if id, ok := se.X.(*ast.Ident); ok && (id.Name == "simrt" || id.Name == "simfs") {
				if _, known := fc.info.Uses[id]; !known {
					for i := range e.Args {
						if _, isLit := e.Args[i].(*ast.BasicLit); !isLit {
							e.Args[i] = fc.l2Expr(e.Args[i], false)
						}
					}
					return e
				}
			}
		}
		if fc.isTypeExpr(e.Fun) {
			for i := range e.Args {
				e.Args[i] = fc.l2Expr(e.Args[i], false)
			}
			return e
		}
		// wg.Done() and cancel() carry happens-before edges the scheduler hooks do not see
		if se, ok := e.Fun.(*ast.SelectorExpr); ok && se.Sel.Name == "Done" && len(e.Args) == 0 {
			if tv, ok := fc.info.Types[se.X]; ok && isWaitGroup(tv.Type) {
				recv := fc.l2Expr(se.X, false)
				if _, isPtr := tv.Type.(*types.Pointer); !isPtr {
					recv = &ast.UnaryExpr{Op: token.AND, X: recv}
				}
				return fc.rt("WgDoneOn", recv)
			}
		}
		if tv, ok := fc.info.Types[e.Fun]; ok && len(e.Args) == 0 && isCancelFunc(tv.Type) {
			return fc.rt("Cancel", fc.l2Expr(e.Fun, false))
		}
		if id, ok := e.Fun.(*ast.Ident); ok {
			if _, isB := fc.info.Uses[id].(*types.Builtin); isB {
				delMap := id.Name == "delete" && len(e.Args) == 2 && fc.isMap(e.Args[0])
				for i := range e.Args {
					if !fc.isTypeExpr(e.Args[i]) {
						e.Args[i] = fc.l2Expr(e.Args[i], false)
					}
				}
				if delMap {
					e.Args[0] = fc.wrapMap(e.Args[0], e.Lparen, true)
				}
				return e
			}
		}
		e.Fun = fc.l2Expr(e.Fun, false)
		for i := range e.Args {
			e.Args[i] = fc.l2Expr(e.Args[i], false)
		}
		return e
	}
	return e
}

// isSliceElem: e is s[i] with s a slice (element addressable, &s[i] is legal).
func (fc *fileCtx) isSliceElem(e *ast.IndexExpr) bool {
	tv, ok := fc.info.Types[e.X]
	if !ok || tv.Type == nil {
		return false
	}
	if _, isSl := tv.Type.Underlying().(*types.Slice); !isSl {
		return false
	}
	// skip elements whose type is a synchronisation primitive
	if etv, ok := fc.info.Types[e]; ok && isSyncType(etv.Type) {
		return false
	}
	return true
}

func (fc *fileCtx) wrapAccessAt(e ast.Expr, pos token.Pos, write bool) ast.Expr {
	name, kind := "RP", "elrd"
	if write {
		name, kind = "WP", "elwr"
	}
	st.sites[kind]++
	p := fc.fset.Position(pos)
	site := &ast.BasicLit{Kind: token.STRING, Value: strconv.Quote(fmt.Sprintf("%s:%d:%s@%s", filepath.Base(p.Filename), p.Line, kind, fc.fn))}
	return &ast.ParenExpr{X: &ast.StarExpr{X: fc.rt(name, &ast.UnaryExpr{Op: token.AND, X: e}, site)}}
}

func (fc *fileCtx) isMap(e ast.Expr) bool {
	tv, ok := fc.info.Types[e]
	if !ok || tv.Type == nil {
		return false
	}
	_, m := tv.Type.Underlying().(*types.Map)
	return m
}

func (fc *fileCtx) wrapMap(m ast.Expr, pos token.Pos, write bool) ast.Expr {
	kind := "maprd"
	if write {
		kind = "mapwr"
	}
	st.sites[kind]++
	p := fc.fset.Position(pos)
	site := &ast.BasicLit{Kind: token.STRING, Value: strconv.Quote(fmt.Sprintf("%s:%d:%s@%s", filepath.Base(p.Filename), p.Line, kind, fc.fn))}
	w := "false"
	if write {
		w = "true"
	}
	return fc.rt("MP", m, site, ast.NewIdent(w))
}

func isWaitGroup(t types.Type) bool {
	if p, ok := t.(*types.Pointer); ok {
		t = p.Elem()
	}
	n, ok := t.(*types.Named)
	return ok && n.Obj().Pkg() != nil && n.Obj().Pkg().Path() == "sync" && n.Obj().Name() == "WaitGroup"
}

func isCancelFunc(t types.Type) bool {
	n, ok := t.(*types.Named)
	if ok && n.Obj().Pkg() != nil && n.Obj().Pkg().Path() == "context" && (n.Obj().Name() == "CancelFunc" || n.Obj().Name() == "CancelCauseFunc") {
		return true
	}
	return false
}
