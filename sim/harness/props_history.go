package simharness

import (
	"context"
	"errors"
	"fmt"
	"io"
	"os"
	"path/filepath"
	"runtime"
	"strings"
	"testing"
	"time"
	"testing/synctest"

	"github.com/ddddddO/gtree"
	"github.com/ddddddO/gtree/simfs"
	"github.com/ddddddO/gtree/simrt"
	"github.com/fatih/color"
)

// ---- history engine (C13, C03) -----------------------------------------------------------------------

// hCall is one call of a history.
type hCall struct {
	Kind  string // newroot | add | op | mdop
	Task  int    // caller task executing it
	Tree  int    // tree index (newroot creates it)
	Node  int    // add: index of the parent node in the tree's creation order
	Name  string
	Op    Op
	Doc   []byte // mdop
	Prep  string // verify: state of the directory (exact | empty)
	ShareOpt bool // massive calls: use the history's one shared WithMassive option value
	Reenter  bool // walks: the callback / loop body calls the library itself (at the first visit)
	ReenterSame bool // ... on the tree being walked (with the same options) instead of on another tree
	ReenterJSON bool // ... as a JSON output with default options (ReenterSame: of the tree being walked, whatever its branch strings)
	AddLate  bool // walks (callback form): at its second visit the callback adds the node Name under the root of the tree being walked
	Model *MNode // op: clone of the tree's model at call time (what the result must be a function of)
	Redo  bool   // mkdir: the caller removes the target directory's content after the call and makes the same call again; the result is that of the second call
	Share *MNode // verify: not nil = the call verifies against the history's one shared directory, which holds exactly this tree
	// results
	Res *opResult
}

func (h hCall) String() string {
	switch h.Kind {
	case "newroot":
		return fmt.Sprintf("task%d: t%d = NewRoot(%q)", h.Task, h.Tree, h.Name)
	case "add":
		return fmt.Sprintf("task%d: t%d.node[%d].Add(%q)", h.Task, h.Tree, h.Node, h.Name)
	case "stalled":
		return "bystander: OutputFromMarkdown+WithMassive of a document with many roots into a writer whose first Write returns only when all other callers are done"
	case "op":
		extra := ""
		if h.Reenter {
			extra = " (its callback calls the library itself)"
		}
		if h.AddLate {
			extra = fmt.Sprintf(" (at its second visit the callback does t%d.Add(%q))", h.Tree, h.Name)
		}
		if h.Redo {
			extra += " (then the caller empties the target directory and makes the same call again)"
		}
		if h.Share != nil {
			extra += " (against the directory shared by all such calls, which holds " + modelStr(h.Share) + ")"
		}
		return fmt.Sprintf("task%d: %s on t%d%s", h.Task, h.Op, h.Tree, extra)
	default:
		return fmt.Sprintf("task%d: %s on markdown %q", h.Task, h.Op, string(h.Doc))
	}
}

type opResult struct {
	Err    string
	Out    string
	Visits []Visit
	Snap   string
	Panic  string
	Stale  string // a WalkerNode handed out by the walk no longer reads what it read at its visit
	Tamper string // the call wrote into a slice that belongs to the caller
}

func (r *opResult) diff(o *opResult) string {
	if r.Stale != o.Stale {
		return fmt.Sprintf("retained-nodes %q vs %q", r.Stale, o.Stale)
	}
	if r.Tamper != o.Tamper {
		return fmt.Sprintf("callers-slice-modified %q vs %q", r.Tamper, o.Tamper)
	}
	if r.Panic != o.Panic {
		return fmt.Sprintf("panic %q vs %q", r.Panic, o.Panic)
	}
	if r.Err != o.Err {
		return fmt.Sprintf("error %q vs %q", r.Err, o.Err)
	}
	if r.Out != o.Out {
		return fmt.Sprintf("output\n%s\nvs\n%s", r.Out, o.Out)
	}
	if len(r.Visits) != len(o.Visits) {
		return fmt.Sprintf("%d visits vs %d", len(r.Visits), len(o.Visits))
	}
	for i := range r.Visits {
		if visitKey(r.Visits[i]) != visitKey(o.Visits[i]) {
			return fmt.Sprintf("visit %d: %s vs %s", i, visitKey(r.Visits[i]), visitKey(o.Visits[i]))
		}
	}
	if r.Snap != o.Snap {
		return fmt.Sprintf("filesystem\n%s\nvs\n%s", r.Snap, o.Snap)
	}
	return ""
}

// sharedMassiveOpt is the one WithMassive option value of the history being run.
var sharedMassiveOpt gtree.Option

type liveTree struct {
	root  *gtree.Node
	nodes []*gtree.Node
}

// routeWriter lets concurrent callers share color.Output: writes are routed to the writer of
// the top-level caller task the writing goroutine belongs to.
type routeWriter struct {
	byTask map[string]io.Writer
}

func (rw *routeWriter) Write(p []byte) (int, error) {
	id := "0"
	if t := simrt.CurrentTask(); t != nil {
		id = t.ID
		if i := strings.Index(id, "."); i > 0 {
			id = id[:i]
		}
	}
	if w := rw.byTask[id]; w != nil {
		return w.Write(p)
	}
	return len(p), nil
}

func prepDir(target string, model *MNode, prep string) {
	os.MkdirAll(target, 0o755)
	if prep == "exact" && model != nil {
		for _, p := range model.Paths("") {
			os.MkdirAll(filepath.Join(target, p), 0o755)
		}
	}
}

func normErr(err error, target string) string {
	if err == nil {
		return ""
	}
	s := err.Error()
	if target != "" {
		s = strings.ReplaceAll(s, target, "<T>")
	}
	// verify lists missing paths in map order: sort the lines of each list
	return sortLists(s)
}

func sortLists(s string) string {
	lines := strings.Split(s, "\n")
	out := []string{}
	var block []string
	flush := func() {
		sortStrings(block)
		out = append(out, block...)
		block = nil
	}
	for _, l := range lines {
		if strings.HasPrefix(l, "\t") {
			block = append(block, l)
		} else {
			flush()
			out = append(out, l)
		}
	}
	flush()
	return strings.Join(out, "\n")
}

func sortStrings(s []string) {
	for i := 1; i < len(s); i++ {
		for j := i; j > 0 && s[j] < s[j-1]; j-- {
			s[j], s[j-1] = s[j-1], s[j]
		}
	}
}

// execCall performs one op/mdop call and returns its result. jail: directory for its
// filesystem effects; yield: stubs park (simulated run).
func execCall(h *hCall, root *gtree.Node, jail string, idx int, yield bool, rw *routeWriter, taskID string) *opResult {
	res := &opResult{}
	if !yield {
		// un-simulated call: its map order is a function of the call alone
		simrt.SeedMaps(mix(hashStr(h.String()), uint64(idx)) | 1)
		defer simrt.SeedMaps(0)
	}
	wr := newSimWriter(noWriterFault, yield)
	cb := newSimCallback(noCbFault, yield)
	rd := newSimReader(h.Doc, noReaderFault, yield)
	target := ""
	if needsFS(h.Op) {
		target = filepath.Join(jail, fmt.Sprintf("t%d", idx))
		model := h.Model
		if h.Kind == "mdop" {
			model = nil
		}
		if h.Op.Kind == "verify" && h.Share != nil {
			// several callers verify against one directory (Verify only reads it); whoever comes
			// first prepares it, everybody with the same content
			target = filepath.Join(jail, "shared")
			prepDir(target, h.Share, "exact")
		} else if h.Op.Kind == "verify" {
			prepDir(target, model, h.Prep)
		} else {
			os.MkdirAll(target, 0o755)
		}
	}
	ctx := context.Background()
	if h.Op.PreCancelled {
		c2, cancel := context.WithCancel(ctx)
		cancel()
		ctx = c2
	}
	opts := opOptions(h.Op, ctx, target)
	extsGiven := lastExtsGiven
	if h.Reenter {
		// the callback (or loop body) of this walk itself uses the library: on another tree, or
		// on the tree being walked (rendering it with the same options changes nothing)
		other := gtree.NewRoot("inner")
		other.Add("x").Add("y")
		cb.inner = func() {
			t := other
			if h.ReenterSame && root != nil {
				t = root
			}
			if h.ReenterJSON {
				gtree.OutputFromRoot(io.Discard, t, gtree.WithEncodeJSON()) // an encoded output only reads the tree
			} else {
				gtree.OutputFromRoot(io.Discard, t, opts...)
			}
		}
	}
	if h.AddLate && root != nil {
		// the program adds a node to the tree from inside the walk: the running walk shows the
		// tree as it was or as it is now, and ends
		cb.inner = func() { root.Add(h.Name) }
		cb.innerAt = 1
	}
	if h.ShareOpt && h.Op.Massive && sharedMassiveOpt != nil && yield {
		// the same Option value as other calls of this history use (options are often built once)
		for i, o := range opts {
			if i == 0 && o != nil {
				opts[0] = sharedMassiveOpt
			}
		}
	}
	if rw != nil {
		rw.byTask[taskID] = wr
	}
	call := func() {
		defer func() {
			if p := recover(); p != nil {
				res.Panic = fmt.Sprint(p)
			}
		}()
		op := h.Op
		var err error
		if op.Kind == "mkdir" && op.FromRoot && op.DryRun {
			// color.Output is already routed (simulated run) or set here (direct run)
			if rw == nil {
				old := color.Output
				color.Output = wr
				defer func() { color.Output = old }()
			}
			if op.Alias {
				err = gtree.MkdirProgrammably(root, opts...)
			} else {
				err = gtree.MkdirFromRoot(root, opts...)
			}
		} else {
			err = invoke(op, wr, rd, root, cb, opts)
		}
		res.Err = normErr(err, target)
	}
	call()
	if h.Redo && target != "" && res.Panic == "" {
		// the caller removes what the call created and calls again with the same target: the
		// second call gives what a first call gives
		os.RemoveAll(target)
		os.MkdirAll(target, 0o755)
		call()
	}
	if !yield && h.Op.Massive {
		settleGoroutines()
	}
	res.Out = string(wr.buf)
	res.Visits = cb.visits
	res.Stale = cb.staleNodes()
	res.Tamper = tampered(opts, extsGiven, h.Op.Exts)
	if target != "" {
		res.Snap = snapString(snapshot(target))
	}
	return res
}

// runHistory executes the calls, each by its task, under the simulator (sim) or
// sequentially in the given order (direct).
func runHistory(c *Ctx, name string, calls []*hCall, nTasks int, sim bool, jail string) *Outcome {
	trees := map[int]*liveTree{}
	do := func(i int, h *hCall, yield bool, rw *routeWriter, taskID string) {
		switch h.Kind {
		case "newroot":
			r := gtree.NewRoot(h.Name)
			trees[h.Tree] = &liveTree{root: r, nodes: []*gtree.Node{r}}
		case "add":
			lt := trees[h.Tree]
			n := lt.nodes[h.Node].Add(h.Name)
			known := false
			for _, x := range lt.nodes {
				if x == n {
					known = true
				}
			}
			if !known {
				lt.nodes = append(lt.nodes, n)
			}
		case "op":
			h.Res = execCall(h, trees[h.Tree].root, jail, i, yield, rw, taskID)
			if h.AddLate {
				lt := trees[h.Tree]
				n := lt.root.Add(h.Name) // (added by the callback already: this returns that node)
				known := false
				for _, x := range lt.nodes {
					if x == n {
						known = true
					}
				}
				if !known {
					lt.nodes = append(lt.nodes, n)
				}
			}
		case "mdop":
			h.Res = execCall(h, nil, jail, i, yield, rw, taskID)
		}
	}
	out := &Outcome{Probes: map[string]int{}}
	if !sim {
		d := simfs.NewDisk(filepath.Dir(jail))
		simfs.Install(d)
		defer simfs.Uninstall()
		for i, h := range calls {
			do(i, h, false, nil, "")
		}
		out.Returned = true
		out.DiskOps = d.Records()
		c.st.Count("direct.histories")
		failTampered(c, name, calls)
		return out
	}
	chooser := c.Chooser(name, -1)
	var run *simrt.Run
	var infos []simrt.TaskInfo
	func() {
		defer func() {
			if p := recover(); p != nil {
				out.BubbleErr = fmt.Sprint(p)
			}
		}()
		synctest.Test(theT, func(t *testing.T) {
			run = simrt.NewRun(chooser, 400000)
			run.KeepTrace = c.keepTrace
			var rdet *raceDetector
			if level2Build {
				rdet = newRaceDetector(run)
			}
			run.Begin()
			defer run.End()
			simrt.SeedMaps(mix(c.Seed, 0x68697374) | 1)
			defer simrt.SeedMaps(0)
			d := simfs.NewDisk(filepath.Dir(jail))
			d.Yield = true
			simfs.Install(d)
			defer simfs.Uninstall()
			sharedMassiveOpt = gtree.WithMassive(context.Background())
			defer func() { sharedMassiveOpt = nil }()
			rw := &routeWriter{byTask: map[string]io.Writer{}}
			old := color.Output
			color.Output = rw
			defer func() { color.Output = old }()
			done := 0
			gate := make(chan struct{})
			for _, h := range calls {
				if h.Kind != "stalled" {
					continue
				}
				h := h
				run.Spawn("9", "harness:0:bystander", func() {
					wr := newSimWriter(noWriterFault, true)
					wr.gate = gate
					gtree.OutputFromMarkdown(wr, newSimReader(h.Doc, noReaderFault, true), gtree.WithMassive(context.Background()))
				})
			}
			for ti := 0; ti < nTasks; ti++ {
				ti := ti
				id := fmt.Sprint(ti)
				run.Spawn(id, "harness:0:caller", func() {
					for i, h := range calls {
						if h.Task != ti {
							continue
						}
						simrt.Yield("harness:between-calls")
						do(i, h, true, rw, id)
					}
					done++
					if done == nTasks {
						close(gate) // every caller is done: the bystander's writer lets go
					}
				})
			}
			run.Loop()
			infos = run.Infos()
			out.Returned = done == nTasks
			out.DiskOps = d.Records()
			if rdet != nil {
				out.Races = rdet.reports()
			}
		})
	}()
	c.flushSched()
	if run != nil {
		out.Steps, out.StepCap = run.Steps, run.StepCapHit
		out.TraceHash, out.OrderHash = run.TraceHash(), run.OrderHash()
		out.Trace = run.Trace
		for k, v := range run.Probes {
			out.Probes[k] = v
		}
		for _, ti := range infos {
			out.Tasks++
			if ti.Panic != "" {
				out.Panics = append(out.Panics, PanicInfo{Task: ti.ID, Site: ti.PanicSite, Value: ti.Panic})
			}
			if ti.State != "done" {
				if !strings.Contains(ti.ID, ".") {
					out.Hang = true
				} else {
					out.Leaks = append(out.Leaks, ti)
				}
			}
		}
	}
	st := c.st
	st.Count("sim.runs")
	st.Add("sim.steps", out.Steps)
	st.Add("sim.tasks", out.Tasks)
	st.Distinct("interleavings.full", out.TraceHash)
	st.Distinct("interleavings.persite", out.OrderHash)
	for k, v := range out.Probes {
		st.Add("probe:"+k, v)
	}
	if c.keepTrace {
		c.lastTrace = out.Trace
	}
	failTampered(c, name, calls)
	return out
}

// failTampered fails the case when a call of the history wrote into one of the caller's
// own slices (the option list, the extension list): what the caller passes is the
// caller's, and a later call made with the same values must see them unchanged.
func failTampered(c *Ctx, name string, calls []*hCall) {
	for i, h := range calls {
		if h.Res != nil && h.Res.Tamper != "" {
			c.Failf(c.Prop+":callers-slice-modified:"+h.Op.Kind, "%s, call %d (%s): %s", name, i, h.Op.Kind, h.Res.Tamper)
		}
	}
}

// genFromRootOp draws a From-Root operation for histories.
func genFromRootOp(c *Ctx, allowMassive bool) Op {
	op := Op{FromRoot: true}
	switch c.Pick(6, 2, 1, 1, 2, 3, 3, 2, 2, 2) {
	case 0:
		op.Kind = "output"
		op.Branch = branchSets[c.Pick(4, 1, 1, 1, 1, 1, 1, 1, 1)]
		if op.Branch != nil && c.Chance(1, 5) {
			op.BranchOnly = []string{"last", "mid"}[c.Draw(2)]
		}
	case 1:
		op.Kind, op.Encode = "output", 1
	case 2:
		op.Kind, op.Encode = "output", 2
	case 3:
		op.Kind, op.Encode = "output", 3
	case 4:
		op.Kind, op.DryRun = "output", true
		op.Exts = extSets[c.Draw(len(extSets))]
	case 5:
		op.Kind = "walk"
		op.Branch = branchSets[c.Pick(4, 1, 1, 1, 1, 1, 1, 1, 1)]
		if op.Branch != nil && c.Chance(1, 5) {
			op.BranchOnly = []string{"last", "mid"}[c.Draw(2)]
		}
		if c.Chance(1, 6) {
			op.DryRun = true // accepted by the walks: names are validated before the first callback
		}
	case 6:
		op.Kind = "walkiter"
	case 7:
		op.Kind = "mkdir"
		op.Exts = extSets[c.Draw(len(extSets))]
	case 8:
		op.Kind, op.DryRun = "mkdir", true
		op.Exts = extSets[c.Draw(len(extSets))]
	case 9:
		op.Kind = "verify"
		op.Strict = c.Draw(2) == 1
	}
	if allowMassive && op.Kind != "walkiter" && c.Chance(1, 4) {
		op.Massive = true
	}
	if op.Kind == "walkiter" && c.Chance(1, 5) {
		op.Massive = true // accepted and ignored by the iterator form
		op.PreCancelled = c.Chance(1, 2)
	}
	if c.Chance(1, 12) {
		op.NilOption = true
	}
	if c.Chance(1, 10) {
		op.Decoys = true
	}
	if c.Chance(1, 10) {
		op.Stray = true
	}
	if op.Kind != "output" && !op.DryRun && !op.Massive && c.Chance(1, 25) {
		op.StrayEncode = true
	}
	if c.Chance(1, 8) {
		op.Alias = true
	}
	return op
}

// ---- C13 ---------------------------------------------------------------------------------------------

func init() {
	register(&Property{
		ID:    "C13",
		Level: "exploration",
		Rule: "one case = a history of up to 24 calls (NewRoot / Add on any node of any live tree / any From-Root operation on any live tree / independent From-Markdown operations) dealt to 1-4 simulated caller tasks that own disjoint trees; " +
			"the scheduler interleaves the callers between calls and inside calls (counter mutex, reader/writer/callback stubs, disk shim, pipeline hooks of massive calls). Oracle: every operation's result equals the result of the same operation on a tree freshly built from the model, computed after the history. " +
			"In addition every run enumerates EXHAUSTIVELY all single-caller histories NewRoot(r) followed by up to 4 (thorough: 5) actions over a 12-action alphabet (Add a/b under the first three nodes, output, output with other branch strings, walk, iterator walk, JSON, dry-run mkdir, build-and-print another tree) and applies the same oracle (counts under breakdown: exhaustive.*). " +
			"non-trivial = the history contains an Add after an operation on the same tree, or at least 2 caller tasks; distinct = different (history, schedule) hash",
		Case:  caseC13,
		Exhaustive: exhaustiveC13,
		Real:  []string{"gtree + gtree/markdown (instrumented copy of /repo working tree) incl. the package-level index counter, simple mode and massive pipeline"},
		Stubs: []string{"caller tasks and goroutine scheduler", "reader/writer/callback stubs that park", "color.Output routed per caller", "filesystem shim over a tmpfs jail (one target directory per call)"},
	})
}

type histOpts struct {
	maxCalls   int
	maxTasks   int
	allowMd    bool
	alpha      int
}

func genHistory(c *Ctx, o histOpts) (calls []*hCall, nTasks int, nontrivial bool) {
	nTasks = 1 + c.Pick(5, 3, 1, 1)
	if nTasks > o.maxTasks {
		nTasks = o.maxTasks
	}
	type mtree struct {
		model *MNode
		nodes []*MNode
		owner int
		opSeen bool
	}
	var trees []*mtree
	n := 3 + c.Draw(o.maxCalls-2)
	for i := 0; i < n; i++ {
		kind := c.Pick(2, 6, 5, 1)
		if len(trees) == 0 {
			kind = 0
		}
		if kind == 0 && len(trees) >= 4 {
			kind = 1
		}
		if kind == 3 && !o.allowMd {
			kind = 2
		}
		switch kind {
		case 0:
			t := &mtree{owner: c.Draw(nTasks)}
			name := genName(c, o.alpha)
			t.model = &MNode{Name: name}
			t.nodes = []*MNode{t.model}
			trees = append(trees, t)
			calls = append(calls, &hCall{Kind: "newroot", Task: t.owner, Tree: len(trees) - 1, Name: name})
		case 1:
			ti := c.Draw(len(trees))
			t := trees[ti]
			if len(t.nodes) >= 9 {
				continue
			}
			pi := c.Draw(len(t.nodes))
			// depth limit
			name := genName(c, o.alpha)
			p := t.nodes[pi]
			if p.kid(name) == nil {
				k := &MNode{Name: name}
				p.Kids = append(p.Kids, k)
				t.nodes = append(t.nodes, k)
			} else {
				c.st.Count("history.add-existing-name")
			}
			if t.opSeen {
				nontrivial = true
			}
			calls = append(calls, &hCall{Kind: "add", Task: t.owner, Tree: ti, Node: pi, Name: name})
		case 2:
			ti := c.Draw(len(trees))
			t := trees[ti]
			op := genFromRootOp(c, true)
			h := &hCall{Kind: "op", Task: t.owner, Tree: ti, Op: op, Model: t.model.Clone(), ShareOpt: op.Massive && !op.NilCtx && c.Draw(2) == 0}
			if op.Kind == "verify" {
				h.Prep = []string{"exact", "empty"}[c.Draw(2)]
			}
			if op.Kind == "mkdir" && !op.DryRun && c.Chance(1, 3) {
				h.Redo = true
				c.st.Count("history.mkdir-removed-and-made-again")
			}
			if (op.Kind == "walk" || op.Kind == "walkiter") && !op.Massive && c.Chance(1, 4) {
				h.Reenter = true
				h.ReenterSame = op.Kind == "walk" && len(op.Branch) == 0 && c.Draw(2) == 0
				if c.Chance(1, 3) {
					h.ReenterJSON = true
					h.ReenterSame = c.Draw(2) == 0
				}
			} else if op.Kind == "walk" && !op.Massive && len(t.nodes) >= 2 && len(t.nodes) < 9 && c.Chance(1, 5) {
				h.AddLate = true
				h.Name = fmt.Sprintf("late-%d", len(calls))
				k := &MNode{Name: h.Name}
				t.model.Kids = append(t.model.Kids, k)
				t.nodes = append(t.nodes, k)
				c.st.Count("history.add-from-inside-a-walk")
			}
			t.opSeen = true
			calls = append(calls, h)
		case 3:
			// massive From-Markdown calls get a single root: with several roots their result is
			// only defined up to the order of roots (C10), which is not what is compared here
			massive := c.Chance(1, 3)
			mr := 2
			if massive {
				mr = 1
			}
			f := genForest(c, forestOpts{maxRoots: mr, maxExtra: 3, alpha: o.alpha, distinctRoots: true, maxDepth: 3, maxFan: 3})
			doc := canonicalDoc(f)
			if c.Chance(1, 2) {
				// another notation (indentation unit, bullets, CRLF, blank lines): nothing learnt from
				// one document may leak into a call on another
				doc, _ = spell(c, f, genSpelling(c, false))
			}
			if c.Chance(1, 4) {
				// a malformed document: the call's error must be its own, whatever else runs
				parts := [][]byte{doc}
				malform(c, parts, "  ")
				doc = parts[0]
				// partial effects of a failing massive call depend on its schedule: simple mode only
				massive = false
			}
			op := genOp(c, massive)
			h := &hCall{Kind: "mdop", Task: c.Draw(nTasks), Op: op, Doc: doc, ShareOpt: op.Massive && !op.NilCtx && c.Draw(2) == 0}
			if op.Kind == "verify" {
				h.Prep = "empty"
			}
			calls = append(calls, h)
		}
	}
	if o.allowMd && nTasks >= 2 && len(trees) > 0 && c.Chance(1, 8) {
		// two callers verify DIFFERENT trees with the same root name against the SAME directory
		// at the same time: each verdict is a function of its own tree and the directory
		t := trees[c.Draw(len(trees))]
		other := (t.owner + 1 + c.Draw(nTasks-1)) % nTasks
		twin := &mtree{owner: other, model: &MNode{Name: t.model.Name}}
		twin.nodes = []*MNode{twin.model}
		trees = append(trees, twin)
		ti, tw := 0, len(trees)-1
		for i, x := range trees {
			if x == t {
				ti = i
			}
		}
		calls = append(calls, &hCall{Kind: "newroot", Task: other, Tree: tw, Name: t.model.Name})
		for j := 0; j < 1+c.Draw(3); j++ {
			k := &MNode{Name: fmt.Sprintf("twin-%d", j)}
			twin.model.Kids = append(twin.model.Kids, k)
			twin.nodes = append(twin.nodes, k)
			calls = append(calls, &hCall{Kind: "add", Task: other, Tree: tw, Node: 0, Name: k.Name})
		}
		shared := t.model.Clone()
		for r := 0; r < 2+c.Draw(3); r++ {
			for _, x := range []int{ti, tw} {
				op := Op{FromRoot: true, Kind: "verify", Strict: c.Draw(2) == 1, Massive: c.Chance(1, 5)}
				calls = append(calls, &hCall{Kind: "op", Task: trees[x].owner, Tree: x, Op: op, Model: trees[x].model.Clone(), Prep: "exact", Share: shared, ShareOpt: op.Massive && c.Draw(2) == 0})
			}
		}
		c.st.Count("history.with-verify-calls-sharing-a-directory")
		nontrivial = true
	}
	if o.allowMd && c.Chance(1, 12) {
		// a bystander: one more caller whose massive call on a document with many roots is held
		// up by its own writer (the first Write returns only when every other caller is done).
		// What it holds while it waits must be its own: nobody else may wait for it.
		var sb strings.Builder
		for i := 0; i < 22+c.Draw(10); i++ {
			fmt.Fprintf(&sb, "- bystander%d\n  - child\n", i)
		}
		calls = append(calls, &hCall{Kind: "stalled", Task: -1, Doc: []byte(sb.String())})
		c.st.Count("history.with-stalled-bystander-call")
		nontrivial = true
	}
	if nTasks >= 2 {
		nontrivial = true
	}
	return
}

func describeHistory(calls []*hCall) []string {
	out := make([]string, len(calls))
	for i, h := range calls {
		out[i] = h.String()
	}
	return out
}

func caseC13(c *Ctx) {
	calls, nTasks, nontrivial := genHistory(c, histOpts{maxCalls: 24, maxTasks: 4, allowMd: true, alpha: alphaFS})
	c.Scenario["history"] = describeHistory(calls)
	c.Scenario["tasks"] = nTasks
	c.st.Count(fmt.Sprintf("tasks:%d", nTasks))
	c.st.Add("history.calls", len(calls))
	jail := newJail()
	defer removeJail(jail)
	out := runHistory(c, "main", calls, nTasks, true, filepath.Join(jail, "h"))
	if nontrivial {
		h := uint64(0)
		for _, s := range describeHistory(calls) {
			h = mix(h, hashStr(s))
		}
		c.st.Distinct("nontrivial", mix(h, out.TraceHash))
	}
	c.st.Sample(fmt.Sprintf("tasks%d", nTasks), map[string]any{"tasks": nTasks, "history": describeHistory(calls), "steps": out.Steps})
	if len(out.Panics) > 0 {
		c.Failf("C13:panic:"+out.Panics[0].Site, "panic during the history: %s", out.Panics[0].Value)
	}
	if out.Hang || out.StepCap || !out.Returned {
		c.Failf("C13:hang", "the history did not complete (hang=%v stepcap=%v) %s", out.Hang, out.StepCap, out.BubbleErr)
	}
	if len(out.Races) > 0 {
		c.Failf("C13:race:"+raceSig(out.Races[0]), "%s", strings.Join(out.Races, "\n"))
	}
	// expected results: the same operation on a tree freshly built from the model, run
	// alone after the history
	for i, h := range calls {
		if h.Kind != "op" && h.Kind != "mdop" {
			continue
		}
		ref := &hCall{Kind: h.Kind, Op: h.Op, Doc: h.Doc, Prep: h.Prep, Model: h.Model, Share: h.Share}
		var root *gtree.Node
		if h.Kind == "op" {
			root = buildNode(h.Model)
		}
		d := simfs.NewDisk(jail)
		simfs.Install(d)
		// "run alone": from the package-level state of a fresh process, not from what the
		// history left there (a cache filled during the history would answer the reference too)
		gtree.SimResetGlobals()
		want := execCall(ref, root, filepath.Join(jail, "ref"), i, false, nil, "")
		simfs.Uninstall()
		c.st.Count("ops.compared")
		if diff := h.Res.diff(want); diff != "" {
			if h.AddLate {
				// the walk may also show the tree with the node added during it
				after := h.Model.Clone()
				after.Kids = append(after.Kids, &MNode{Name: h.Name})
				simfs.Install(simfs.NewDisk(jail))
				gtree.SimResetGlobals()
				want2 := execCall(&hCall{Kind: h.Kind, Op: h.Op, Prep: h.Prep, Model: after}, buildNode(after), filepath.Join(jail, "ref2"), i, false, nil, "")
				simfs.Uninstall()
				if h.Res.diff(want2) == "" {
					continue
				}
			}
			cls := "from-root"
			if h.Kind == "mdop" {
				cls = "from-markdown"
			}
			aspect := diff
			if j := strings.IndexAny(aspect, " \n"); j > 0 {
				aspect = aspect[:j]
			}
			multi := "1task"
			if nTasks > 1 {
				multi = "concurrent"
			}
			c.Failf("C13:result-depends-on-history:"+cls+":"+h.Op.Kind+strayTag(h.Op)+":"+aspect+":"+multi,
				"call #%d (%s): result in the history differs from the result on a freshly built tree %s:\n%s", i, h, modelStr(h.Model), diff)
		}
	}
}

func modelStr(m *MNode) string {
	if m == nil {
		return ""
	}
	return m.String()
}

// ---- C03 ---------------------------------------------------------------------------------------------

func init() {
	register(&Property{
		ID:    "C03",
		Level: "exploration",
		Rule: "one case = a program of NewRoot/Add calls in a drawn order (any parent first, siblings in any creation order that yields the model's child order, repeated Adds of existing names at any point) followed by one From-Root operation with drawn options; " +
			"the reference is the From-Markdown counterpart on a drawn spelling of the same model tree, both going through the simulated reader/writer/callback/disk seams; plus nil-node / non-root rejection with zero writes and zero disk operations observed at the seams, and deprecated aliases. " +
			"non-trivial = tree with at least 3 nodes and a non-canonical Add order or a repeated Add; distinct = different (program, operation) hash",
		Case:  caseC03,
		Real:  []string{"gtree + gtree/markdown (instrumented copy of /repo working tree): From-Root and From-Markdown families, simple mode"},
		Stubs: []string{"io.Reader/io.Writer/callback stubs (record every call)", "filesystem shim over a tmpfs jail (records every operation)"},
		Assumptions: []string{"names are restricted to those a Markdown list line can carry unchanged (no newline, not empty, no leading blank)"},
	})
}

func caseC03(c *Ctx) {
	arm := pickArm(c, []string{"equivalence", "rejection"}, 8, 2)
	c.st.Count("arm:" + arm)
	jail := newJail()
	defer removeJail(jail)
	if arm == "rejection" {
		caseC03Rejection(c, jail)
		return
	}
	alpha := []int{alphaPlain, alphaFS}[c.Draw(2)]
	model := genTree(c, genName(c, alpha), forestOpts{maxExtra: 9, alpha: alpha, maxDepth: 5, maxFan: 4, shapes: true})
	if c.Chance(1, 60) {
		// a few hundred siblings under one node
		p := model
		for len(p.Kids) > 0 && c.Draw(2) == 0 {
			p = p.Kids[0]
		}
		for i := 0; i < 150+c.Draw(300); i++ {
			p.Kids = append(p.Kids, &MNode{Name: fmt.Sprintf("s%03d", i)})
		}
		c.st.Count("wide-tree")
	}
	op := genFromRootOp(c, false)
	if c.Chance(1, 12) {
		// long names (64..200 bytes; still legal file names)
		var all []*MNode
		var collect func(n *MNode)
		collect = func(n *MNode) {
			all = append(all, n)
			for _, k := range n.Kids {
				collect(k)
			}
		}
		collect(model)
		for i := 0; i < 1+c.Draw(3); i++ {
			n := all[c.Draw(len(all))]
			if len(n.Name) < 60 {
				n.Name += "-" + strings.Repeat("n", 62+c.Draw(130))
			}
		}
		c.st.Count("long-names")
	}
	// --- program: a drawn Add order that builds the model
	type pend struct {
		parent *gtree.Node
		m      *MNode
		next   int
	}
	root := gtree.NewRoot(model.Name)
	prog := []string{fmt.Sprintf("r = NewRoot(%q)", model.Name)}
	open := []*pend{{root, model, 0}}
	var built []struct {
		p    *gtree.Node
		name string
		n    *gtree.Node
	}
	noncanon := false
	for len(open) > 0 {
		// choose which open parent gets its next child (children of one parent keep their order)
		pi := 0
		if c.Chance(1, 2) {
			pi = c.Draw(len(open))
			if pi != len(open)-1 {
				noncanon = true
			}
		} else {
			pi = len(open) - 1
		}
		p := open[pi]
		if p.next >= len(p.m.Kids) {
			open = append(open[:pi], open[pi+1:]...)
			continue
		}
		k := p.m.Kids[p.next]
		p.next++
		n := p.parent.Add(k.Name)
		prog = append(prog, fmt.Sprintf("Add(%q under %q)", k.Name, p.m.Name))
		built = append(built, struct {
			p    *gtree.Node
			name string
			n    *gtree.Node
		}{p.parent, k.Name, n})
		open = append(open, &pend{n, k, 0})
		// repeated Add of an existing name: must return the identical node
		if len(built) > 0 && c.Chance(1, 4) {
			b := built[c.Draw(len(built))]
			again := b.p.Add(b.name)
			prog = append(prog, fmt.Sprintf("Add(%q) again", b.name))
			noncanon = true
			if again != b.n {
				c.Scenario["program"] = prog
				c.Failf("C03:add-existing-returns-new-node", "Add(%q) of an existing name returned a different node", b.name)
			}
		}
	}
	if !needsFS(op) && !validatesNames(op) && c.Chance(1, 8) {
		// not path elements, but perfectly good node names where nothing is validated
		odd := []string{"a/b", "x/", "\xff\xfe", "tab\there", "line-longer-than-4KiB-" + strings.Repeat("L", 4100+c.Draw(5000))}[c.Draw(5)]
		root.Add(odd)
		model.Kids = append(model.Kids, &MNode{Name: odd})
		prog = append(prog, fmt.Sprintf("Add(%q under %q)", odd, model.Name))
		c.st.Count("odd-name-for-non-validating-op")
	}
	if (op.Kind == "verify" || (op.DryRun && (op.Kind == "output" || op.Kind == "walk" || op.Kind == "mkdir"))) && model.Count() >= 2 && c.Chance(1, 5) {
		// a name that is not a single path element: both families must reject it alike
		bad := []string{"a/b", "x/", "/abs", "p/q/r"}[c.Draw(4)]
		victim := root.Add(bad)
		_ = victim
		model.Kids = append(model.Kids, &MNode{Name: bad})
		prog = append(prog, fmt.Sprintf("Add(%q under %q)", bad, model.Name))
		c.st.Count("invalid-name-for-validating-op")
	}
	c.Scenario["program"] = prog
	c.Scenario["op"] = op.String()
	c.Scenario["model"] = model.String()
	var sp Spelling
	if strings.TrimLeft(strings.TrimSpace(model.Name), "#") == model.Name && model.Name != "" {
		// (the tree is already built: only use the heading notation if the root's name survives it)
		sp = genSpellingSimple(c, []*MNode{{Name: model.Name}})
	} else {
		sp = genSpelling(c, false)
	}
	doc, _ := spell(c, []*MNode{model}, sp)
	c.Scenario["doc"] = string(doc)
	c.st.Count("op:" + op.Kind)
	if model.Count() >= 3 && noncanon {
		c.st.Distinct("nontrivial", mix(hashStr(strings.Join(prog, ";")), hashStr(op.String())))
	}
	c.st.Sample(op.Kind, map[string]any{"program": prog, "op": op.String(), "markdown": string(doc)})

	// an earlier From-Root operation on the same tree object must not change anything
	if c.Chance(1, 3) {
		wop := genFromRootOp(c, false)
		if needsFS(wop) {
			wop = Op{Kind: "output", FromRoot: true, Branch: branchSets[1+c.Draw(3)]}
		}
		c.Scenario["earlier_op_on_same_tree"] = wop.String()
		c.st.Count("with-earlier-op")
		dw := simfs.NewDisk(jail)
		simfs.Install(dw)
		execCall(&hCall{Kind: "op", Op: wop, Model: model}, root, filepath.Join(jail, "warm"), 0, false, nil, "")
		simfs.Uninstall()
	}
	// From-Root on the built tree
	hr := &hCall{Kind: "op", Op: op, Model: model, Prep: "exact"}
	if op.Kind == "verify" && c.Draw(2) == 1 {
		hr.Prep = "empty"
	}
	var got *opResult
	if op.Kind != "walkiter" && c.Chance(1, 5) {
		// the same operation with WithMassive, under the simulator (single root: the result is
		// fully determined)
		mop := op
		mop.Massive = true
		mop.NilCtx = c.Chance(1, 4) // documented: WithMassive(nil) means context.Background()
		c.Scenario["op"] = mop.String()
		c.st.Count("massive-from-root")
		target := ""
		var dp *DiskPlan
		if needsFS(mop) {
			target = filepath.Join(jail, "root", "t0")
			if mop.Kind == "verify" {
				prepDir(target, model, hr.Prep)
			} else {
				os.MkdirAll(target, 0o755)
			}
			dp = &DiskPlan{Jail: jail, Target: target, FailAt: -1}
		}
		o := c.Sim("root", mop, &Env{Node: root, Reader: noReaderFault, Writer: noWriterFault, Cb: noCbFault, Disk: dp, MaxSteps: 40000})
		if len(o.Panics) > 0 || o.Hang || o.StepCap {
			c.Failf("C03:massive-from-root-no-result:"+mop.Kind, "panics=%v hang=%v", o.Panics, o.Hang)
		}
		c.failLateEffects("C03", mop, o)
		got = &opResult{Err: normErr(o.Err, target), Out: string(o.Out), Visits: o.Visits, Stale: o.StaleNodes}
		if target != "" {
			got.Snap = snapString(snapshot(target))
		}
	}
	d := simfs.NewDisk(jail)
	simfs.Install(d)
	if got == nil {
		got = execCall(hr, root, filepath.Join(jail, "root"), 0, false, nil, "")
	}
	// From-Markdown counterpart
	mdop := op
	mdop.FromRoot = false
	if op.Kind == "walkiter" {
		mdop.Kind = "walk" // the iterator form has no Markdown counterpart; it must equal the callback form
		mdop.Massive = false // the iterator form ignores WithMassive
	}
	var want *opResult
	if op.Kind == "mkdir" && op.DryRun {
		// the Markdown counterpart of the From-Root dry run is Output+dry-run (the CLI route)
		mdop.Kind = "output"
	}
	hm := &hCall{Kind: "mdop", Op: mdop, Doc: doc, Model: model, Prep: hr.Prep}
	// verify needs the prepared directory also for the Markdown call
	want = execCallPrep(hm, filepath.Join(jail, "md"), model)
	simfs.Uninstall()
	if op.PreCancelled && strings.Contains(got.Err, "context canceled") {
		// (the iterator form may honour the context by yielding its error; what it may not do is
		// end early without one)
		return
	}
	if diff := got.diff(want); diff != "" {
		aspect := diff
		if j := strings.IndexAny(aspect, " \n"); j > 0 {
			aspect = aspect[:j]
		}
		c.Failf("C03:from-root-differs-from-markdown:"+opSig(op)+strayTag(op)+":"+aspect, "%s on the built tree vs %s on the spelling:\n%s", op, mdop, diff)
	}
	// deprecated alias: identical result
	if c.Chance(1, 3) {
		al := op
		al.Alias = !op.Alias
		ha := &hCall{Kind: "op", Op: al, Model: model, Prep: hr.Prep}
		d2 := simfs.NewDisk(jail)
		simfs.Install(d2)
		r2 := execCall(ha, buildNode(model), filepath.Join(jail, "alias"), 0, false, nil, "")
		simfs.Uninstall()
		c.st.Count("alias.compared")
		if diff := got.diff(r2); diff != "" {
			c.Failf("C03:alias-differs:"+op.Kind+strayTag(op), "%s vs %s:\n%s", op, al, diff)
		}
	}
}

// execCallPrep is execCall for a From-Markdown call that needs the directory prepared from
// a model (verify).
func execCallPrep(h *hCall, jail string, model *MNode) *opResult {
	if h.Op.Kind == "verify" {
		target := filepath.Join(jail, "t0")
		prepDir(target, model, h.Prep)
	}
	return execCall(h, nil, jail, 0, false, nil, "")
}

func caseC03Rejection(c *Ctx, jail string) {
	op := genFromRootOp(c, true)
	model := genTree(c, genName(c, alphaPlain), forestOpts{maxExtra: 4, alpha: alphaPlain, maxDepth: 4, maxFan: 3})
	var node *gtree.Node
	want := gtree.ErrNilNode
	kind := "nil-node"
	switch k := c.Draw(5); {
	case k <= 1 && model.Count() > 1:
		root := buildNode(model)
		node = root.Add(model.Kids[0].Name) // existing child: a non-root node
		want = gtree.ErrNotRoot
		kind = "non-root"
	case k == 2:
		node = new(gtree.Node) // not made by NewRoot: not a root either
		want = gtree.ErrNotRoot
		kind = "zero-value-node"
	}
	c.Scenario["op"] = op.String()
	c.Scenario["argument"] = kind
	c.st.Count("rejection:" + kind)
	c.st.Distinct("nontrivial", mix(hashStr(op.String()), hashStr(kind)))
	wr := newSimWriter(noWriterFault, false)
	cb := newSimCallback(noCbFault, false)
	target := filepath.Join(jail, "rej")
	os.MkdirAll(target, 0o755)
	before := snapString(snapshot(jail))
	d := simfs.NewDisk(jail)
	simfs.Install(d)
	old := color.Output
	color.Output = wr
	var err error
	var pan any
	func() {
		defer func() { pan = recover() }()
		err = invoke(op, wr, nil, node, cb, opOptions(op, context.Background(), target))
	}()
	color.Output = old
	simfs.Uninstall()
	if pan != nil {
		c.Failf("C03:rejection-panic:"+kind+":"+op.Kind, "%s with a %s argument panicked: %v", op, kind, pan)
	}
	if !errors.Is(err, want) {
		c.Failf("C03:rejection-wrong-error:"+kind+":"+op.Kind, "%s with a %s argument returned %v, want %v", op, kind, err, want)
	}
	if wr.n != 0 || len(cb.visits) != 0 {
		c.Failf("C03:rejection-wrote:"+kind+":"+op.Kind, "%s with a %s argument made %d writes / %d callbacks before rejecting", op, kind, wr.n, len(cb.visits))
	}
	if ops := d.Records(); len(ops) != 0 {
		c.Failf("C03:rejection-touched-disk:"+kind+":"+op.Kind, "%s with a %s argument issued %d disk operations (first: %s %s)", op, kind, len(ops), ops[0].Op, ops[0].Path)
	}
	if after := snapString(snapshot(jail)); after != before {
		c.Failf("C03:rejection-changed-fs:"+kind+":"+op.Kind, "filesystem changed")
	}
}

// settleGoroutines waits (bounded) until the goroutines of an un-simulated massive call
// have wound down, so that they do not overlap with the next simulated run.
func settleGoroutines() {
	base := runtime.NumGoroutine()
	for i := 0; i < 200; i++ {
		time.Sleep(50 * time.Microsecond)
		n := runtime.NumGoroutine()
		if n >= base && i > 4 {
			// stable or growing: nothing left to wait for (leaked goroutines never go away)
			if n == base {
				return
			}
		}
		base = n
	}
}

// ---- C13: exhaustive histories over a small alphabet ----------------------------------------------------

// The quantifier of C13 asks for all interleavings "exhaustively up to a length bound over a
// small alphabet". One tree (plus one bystander tree), one caller: after NewRoot("r") every
// sequence of length <= L over the actions below; every operation's result is compared with
// the same operation on a freshly built tree. L = 4 (quick) or 5 (thorough).
var exhActions = []string{
	"add n0 a", "add n0 b", "add n1 a", "add n1 b", "add n2 a",
	"output", "output/branch", "walk", "walkiter", "output/json", "mkdir/dry", "other-tree",
}

func exhaustiveC13(c *Ctx, part, parts int) {
	L := 4
	if *fTier == "thorough" {
		L = 5
	}
	A := len(exhActions)
	jail := newJail()
	defer removeJail(jail)
	refCache := map[string]*opResult{}
	total := 0
	for l := 0; l <= L; l++ {
		n := 1
		for i := 0; i < l; i++ {
			n *= A
		}
		total += n
	}
	only, fixed := c.Param("hist")
	checked := 0
	idx := -1
	for l := 0; l <= L; l++ {
		n := 1
		for i := 0; i < l; i++ {
			n *= A
		}
		for code := 0; code < n; code++ {
			idx++
			if fixed {
				if idx != only {
					continue
				}
			} else if idx%parts != part {
				continue
			}
			seq := make([]int, l)
			x := code
			for i := 0; i < l; i++ {
				seq[i] = x % A
				x /= A
			}
			if exhRun(c, seq, idx, jail, refCache) {
				checked++
			}
		}
	}
	c.st.Add("exhaustive.histories-checked", checked)
	c.st.Add("exhaustive.space", total/parts)
	c.st.Sample("exhaustive", map[string]any{"exhaustive_arm": "all histories NewRoot(r) + <= L actions", "L": L, "alphabet": exhActions, "histories_in_space": total})
}

// exhRun executes one history of the exhaustive space; false if the sequence is not
// executable (an Add on a node that does not exist).
func exhRun(c *Ctx, seq []int, idx int, jail string, refCache map[string]*opResult) bool {
	gtree.SimResetGlobals()
	model := &MNode{Name: "r"}
	mnodes := []*MNode{model}
	root := gtree.NewRoot("r")
	nodes := []*gtree.Node{root}
	var hist []string
	for step, a := range seq {
		name := exhActions[a]
		hist = append(hist, name)
		switch {
		case strings.HasPrefix(name, "add "):
			var ni int
			var nm string
			fmt.Sscanf(name, "add n%d %s", &ni, &nm)
			if ni >= len(nodes) {
				return false
			}
			n := nodes[ni].Add(nm)
			if mnodes[ni].kid(nm) == nil {
				k := &MNode{Name: nm}
				mnodes[ni].Kids = append(mnodes[ni].Kids, k)
				mnodes = append(mnodes, k)
				nodes = append(nodes, n)
			}
		case name == "other-tree":
			o := gtree.NewRoot("o")
			o.Add("x").Add("y")
			gtree.OutputFromRoot(io.Discard, o)
		default:
			op := Op{Kind: "output", FromRoot: true}
			switch name {
			case "output/branch":
				op.Branch = branchSets[1]
			case "walk":
				op.Kind = "walk"
			case "walkiter":
				op.Kind = "walkiter"
			case "output/json":
				op.Encode = 1
			case "mkdir/dry":
				op.Kind, op.DryRun = "mkdir", true
			}
			h := &hCall{Kind: "op", Op: op, Model: model}
			got := execCall(h, root, jail, 0, false, nil, "")
			key := model.String() + "|" + op.String()
			want := refCache[key]
			if want == nil {
				want = execCall(h, buildNode(model), jail, 0, false, nil, "")
				refCache[key] = want
			}
			if diff := got.diff(want); diff != "" {
				aspect := diff
				if j := strings.IndexAny(aspect, " \n"); j > 0 {
					aspect = aspect[:j]
				}
				c.SetParam("hist", idx)
				c.Scenario["history"] = append([]string{"NewRoot(r)"}, hist...)
				c.Failf("C13:result-depends-on-history:from-root:"+op.Kind+":"+aspect+":exhaustive", "history NewRoot(r), %s: the result of action #%d (%s) differs from the result on a freshly built tree %s:\n%s", strings.Join(hist, ", "), step, name, model, diff)
			}
		}
	}
	return true
}

// strayTag marks signatures of operations that were given an encode option they have no
// use for (walk, mkdir, verify): a class of its own, see known_findings.txt.
func strayTag(op Op) string {
	if op.StrayEncode && op.Kind != "output" && op.Encode == 0 {
		return "+encode-option"
	}
	return ""
}
