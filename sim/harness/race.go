package simharness

import "github.com/ddddddO/gtree/simrt"

// raceDetector: placeholder until the level-2 build is wired in.
type raceDetector struct{ run *simrt.Run }

func newRaceDetector(r *simrt.Run) *raceDetector { return &raceDetector{run: r} }
func (d *raceDetector) envCancel()              {}
func (d *raceDetector) reports() []string       { return nil }
