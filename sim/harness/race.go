package simharness

import (
	"runtime"
	"runtime/debug"

	"github.com/ddddddO/gtree/simrt"
)

// raceDetector switches on simrt's vector-clock detector for a run (level-2 build only).
// The garbage collector is off while the run lasts so that addresses are not reused.
type raceDetector struct {
	run  *simrt.Run
	prev int
}

var raceRuns int

func newRaceDetector(r *simrt.Run) *raceDetector {
	r.EnableRace()
	return &raceDetector{run: r, prev: debug.SetGCPercent(-1)}
}

func (d *raceDetector) envCancel() {}

func (d *raceDetector) reports() []string {
	debug.SetGCPercent(d.prev)
	raceRuns++
	if raceRuns%64 == 0 {
		runtime.GC()
	}
	return d.run.Races()
}
