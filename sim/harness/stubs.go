package simharness

import (
	"time"
	"strings"
	"context"
	"errors"
	"os"
	"syscall"
	"fmt"
	"io"
	"unsafe"

	"github.com/ddddddO/gtree"
	"github.com/ddddddO/gtree/simrt"
)

// ---- reader -----------------------------------------------------------------------------------

type ReaderPlan struct {
	MaxChunk  int    `json:"max_chunk"`  // 0: whole
	ChunkSeed uint64 `json:"chunk_seed"` // chunk sizes are hash(seed, read#) mod MaxChunk + 1
	FailAt    int    `json:"fail_at"`    // byte offset after which the reader fails; -1 never
	WithData  bool   `json:"with_data"`  // deliver the last bytes together with the error
	ZeroReads bool   `json:"zero_reads"` // sprinkle (0,nil) reads
	Endless   string `json:"endless"`    // after the document, this line is delivered again and again: the input never ends
	Once      bool   `json:"once"`       // the reader reports its error once; asked again it reports io.EOF
	WithLen   bool   `json:"with_len"`   // the reader also has Len() and Size(), as strings.Reader and bytes.Buffer have
	WithClose bool   `json:"with_close"` // the reader also has Close, as a file, a pipe or a response body has: it is the caller's to close
	WriterTo  bool   `json:"writer_to"`  // the reader also has WriteTo, as a *bufio.Reader or an *os.File has
	Seekable  bool   `json:"seekable"`   // the reader also has Seek, and the caller has already consumed a part of it: the document starts at the current offset (fault-free plans only)
	Stall     bool   `json:"stall"`      // after StallAt bytes Read never returns (a pipe whose writer went silent)
	StallAt   int    `json:"stall_at"`
	Slow      bool   `json:"slow"`       // Read call number SlowAt takes 30 s of simulated time before it returns (simulated runs only)
	SlowAt    int    `json:"slow_at"`
}

var noReaderFault = ReaderPlan{FailAt: -1}

type simReader struct {
	SlowFired bool
	plan  ReaderPlan
	data  []byte
	pos   int
	n     int
	zeros int
	Fired bool
	Err   error
	yield bool
	EndlessReads int
	Stalled bool
	Closed  int
}

// closeReader: the caller's reader with a Close method (counted, never expected).
type closeReader struct{ *simReader }

func (r closeReader) Close() error { r.simReader.Closed++; return nil }

// wtReader: the caller's reader with WriteTo, subject to the same fault plan as Read.
type wtReader struct{ *simReader }

func (r wtReader) WriteTo(w io.Writer) (int64, error) {
	var total int64
	buf := make([]byte, 512)
	for {
		n, err := r.simReader.Read(buf)
		if n > 0 {
			m, werr := w.Write(buf[:n])
			total += int64(m)
			if werr != nil {
				return total, werr
			}
		}
		if err == io.EOF {
			return total, nil
		}
		if err != nil {
			return total, err
		}
	}
}

// lenReader is the caller's reader with the extra methods of a strings.Reader: a library
// may look for them, and must not behave differently for it.
type lenReader struct{ *simReader }

func (r lenReader) Len() int    { return len(r.data) - r.pos }
func (r lenReader) Size() int64 { return int64(len(r.data)) }

// asGiven returns the reader the way the plan says the caller hands it over.
func asGiven(r io.Reader) io.Reader {
	if sr, ok := r.(*simReader); ok && sr != nil {
		if sr.plan.Seekable {
			return seekReader{lenReader{sr}}
		}
		if sr.plan.WithLen {
			return lenReader{sr}
		}
		if sr.plan.WithClose {
			return closeReader{sr}
		}
		if sr.plan.WriterTo {
			return wtReader{sr}
		}
	}
	return r
}

// stubError returns the error value a stub fails with. The value varies with the plan so
// that the library cannot get away with treating particular error values (io.EOF,
// context.Canceled, wrapped sentinels) specially.
func stubError(what string, variant int) error {
	switch variant % 10 {
	case 6:
		return &timeoutErr{what}
	case 7:
		return io.ErrShortWrite // a sentinel the library itself may produce
	case 8:
		return &chameleonErr{what}
	case 9:
		return fmt.Errorf("%s: %w", what, io.ErrNoProgress)
	case 1:
		return fmt.Errorf("%s: %w", what, context.Canceled)
	case 2:
		return fmt.Errorf("%s: %w", what, io.EOF)
	case 3:
		return fmt.Errorf("%s: %w", what, context.DeadlineExceeded)
	case 4:
		return fmt.Errorf("%s: %w", what, io.ErrUnexpectedEOF)
	case 5:
		return &stubErr{what}
	}
	return fmt.Errorf("%s: %w", what, errors.New("injected failure"))
}

// timeoutErr looks like a network timeout (Timeout and Temporary report true).
type timeoutErr struct{ what string }

func (e *timeoutErr) Error() string   { return e.what + ": injected failure (i/o timeout)" }
func (e *timeoutErr) Timeout() bool   { return true }
func (e *timeoutErr) Temporary() bool { return true }

// chameleonErr claims to be io.EOF and context.Canceled when asked with errors.Is.
type chameleonErr struct{ what string }

func (e *chameleonErr) Error() string { return e.what + ": injected failure (claims to be EOF)" }
func (e *chameleonErr) Is(target error) bool {
	return target == io.EOF || target == context.Canceled
}

// multiErr is an error whose dynamic type is not comparable (a slice): err == other panics.
type multiErr []string

func (e multiErr) Error() string { return strings.Join(e, " ") }

// nilPtrErr: its nil pointer is a perfectly good (non-nil) error value.
type nilPtrErr struct{ what string }

func (e *nilPtrErr) Error() string {
	if e == nil {
		return "callback stub: injected failure (a nil pointer inside a non-nil error)"
	}
	return e.what
}

type stubErr struct{ what string }

func (e *stubErr) Error() string { return e.what + ": injected failure (custom type)" }

// consumedPrefix is what the caller of a seekable reader has read before it hands the
// reader over: a library that rewinds the reader sees it again.
const consumedPrefix = "- consumed-by-the-caller-before-the-call\n  - not-part-of-the-document\n"

func newSimReader(data []byte, plan ReaderPlan, yield bool) *simReader {
	r := &simReader{plan: plan, data: data, yield: yield, Err: stubError("reader stub", plan.FailAt+int(plan.ChunkSeed))}
	if plan.Seekable && (plan.FailAt >= 0 || plan.Stall || plan.Endless != "") {
		r.plan.Seekable = false
	}
	if r.plan.Seekable {
		r.data = append([]byte(consumedPrefix), data...)
		r.pos = len(consumedPrefix)
	}
	return r
}

// seekReader is the caller's reader with Seek (and Len/Size), as an *os.File or a
// strings.Reader has.
type seekReader struct{ lenReader }

func (r seekReader) Seek(offset int64, whence int) (int64, error) {
	var abs int64
	switch whence {
	case io.SeekStart:
		abs = offset
	case io.SeekCurrent:
		abs = int64(r.pos) + offset
	case io.SeekEnd:
		abs = int64(len(r.data)) + offset
	default:
		return 0, errors.New("seek: invalid whence")
	}
	if abs < 0 {
		return 0, errors.New("seek: negative position")
	}
	if abs > int64(len(r.data)) {
		abs = int64(len(r.data))
	}
	r.simReader.pos = int(abs)
	return abs, nil
}

func (r *simReader) Read(p []byte) (int, error) {
	if r.yield {
		simrt.Yield("stub:reader")
	}
	r.n++
	if r.yield && r.plan.Slow && r.n == r.plan.SlowAt+1 {
		// a slow source (pipe, network): the fake clock of the bubble moves on when every
		// other goroutine is blocked
		r.SlowFired = true
		time.Sleep(30 * time.Second)
	}
	if len(p) == 0 {
		return 0, nil
	}
	if r.plan.ZeroReads && r.zeros < 2 && mix(r.plan.ChunkSeed, uint64(r.n))%4 == 0 {
		r.zeros++
		return 0, nil
	}
	limit := len(r.data)
	if r.plan.FailAt >= 0 && r.plan.FailAt < limit {
		limit = r.plan.FailAt
	}
	if r.plan.Stall && r.plan.StallAt <= limit {
		limit = r.plan.StallAt
		if r.pos >= limit {
			r.Stalled = true
			simrt.BlockForever("stub:0:reader-stalled@caller's io.Reader")
			return 0, errors.New("reader stub: released after the end of the simulated run")
		}
	}
	if r.pos >= limit {
		if r.plan.FailAt >= 0 && r.plan.FailAt <= len(r.data) {
			if r.plan.Once && r.Fired {
				return 0, io.EOF
			}
			r.Fired = true
			return 0, r.Err
		}
		if r.plan.Endless != "" {
			r.EndlessReads++
			return copy(p, r.plan.Endless), nil
		}
		return 0, io.EOF
	}
	n := limit - r.pos
	if n > len(p) {
		n = len(p)
	}
	if r.plan.MaxChunk > 0 {
		c := 1 + int(mix(r.plan.ChunkSeed, uint64(r.n))%uint64(r.plan.MaxChunk))
		if c < n {
			n = c
		}
	}
	copy(p, r.data[r.pos:r.pos+n])
	r.pos += n
	if r.pos == limit && r.plan.FailAt >= 0 && r.plan.FailAt <= len(r.data) && r.plan.WithData {
		r.Fired = true
		return n, r.Err
	}
	return n, nil
}

// ---- writer -----------------------------------------------------------------------------------

type WriterPlan struct {
	FailAt int  `json:"fail_at"` // index of the Write call that fails; -1 never
	Torn   bool `json:"torn"`    // the failing write accepts half of its bytes
	Short  bool `json:"short"`   // write #FailAt accepts half of its bytes and returns a nil error (one-off)
	Once   bool `json:"once"`    // only write #FailAt fails; later writes succeed again (transient failure)
	Full   bool `json:"full"`    // the failing write accepts all bytes AND returns the error (n == len(p), err != nil)
	Stall  bool `json:"stall"`   // write #FailAt never returns (a stalled pipe)
	ErrVariant int `json:"err_variant"`
}

var noWriterFault = WriterPlan{FailAt: -1}

type Seg struct {
	Task string
	Off  int
	Len  int
}

type simWriter struct {
	plan    WriterPlan
	buf     []byte
	segs    []Seg
	n       int
	Fired   bool
	Refused int // bytes offered but not accepted
	Err     error
	yield   bool
	Stalled bool
	gate    chan struct{} // if set, the first Write returns only when the channel is closed
}

func newSimWriter(plan WriterPlan, yield bool) *simWriter {
	err := stubError("writer stub", plan.FailAt+plan.ErrVariant)
	switch mix(uint64(plan.FailAt), uint64(plan.ErrVariant)+77) % 17 {
	// exact sentinels a writer may legitimately return
	case 11:
		err = io.EOF
	case 12:
		err = io.ErrClosedPipe
	case 13:
		err = syscall.EPIPE
	case 14:
		err = os.ErrClosed
	case 16:
		// errno values that a retry loop might take for "try again": the writer stub still
		// refused the bytes, and the call must not report success
		err = syscall.EAGAIN
		if plan.ErrVariant%2 == 1 {
			err = syscall.EINTR
		}
	case 15:
		err = multiErr{"writer stub: injected failure", "(an error value of a type that cannot be compared with ==)"}
	}
	return &simWriter{plan: plan, yield: yield, Err: err}
}

func (w *simWriter) Write(p []byte) (int, error) {
	if w.yield {
		simrt.Yield("stub:writer")
	}
	// the writer is shared memory of the caller: the library must serialise its use
	simrt.NoteAccess(uintptr(unsafe.Pointer(w)), "stub:0:writer.Write@caller's io.Writer", true)
	idx := w.n
	w.n++
	task := ""
	if t := simrt.CurrentTask(); t != nil {
		task = t.ID
	}
	if w.gate != nil && idx == 0 {
		simrt.WaitGate("stub:0:writer-held-up@caller's io.Writer", w.gate)
	}
	if w.plan.Stall && idx == w.plan.FailAt {
		w.Stalled = true
		simrt.BlockForever("stub:0:writer-stalled@caller's io.Writer")
		return 0, errors.New("writer stub: released after the end of the simulated run")
	}
	if w.plan.Short && idx == w.plan.FailAt && len(p) > 1 {
		// a writer that breaks the io.Writer contract: short count, nil error
		acc := len(p) / 2
		w.Fired = true
		w.segs = append(w.segs, Seg{task, len(w.buf), acc})
		w.buf = append(w.buf, p[:acc]...)
		w.Refused += len(p) - acc
		return acc, nil
	}
	if !w.plan.Short && w.plan.FailAt >= 0 && (idx == w.plan.FailAt || (w.Fired && !w.plan.Once)) {
		first := !w.Fired
		w.Fired = true
		acc := 0
		if w.plan.Full {
			acc = len(p)
		}
		if first && w.plan.Torn && len(p) > 1 {
			acc = len(p) / 2
		}
		if acc > 0 {
			w.segs = append(w.segs, Seg{task, len(w.buf), acc})
			w.buf = append(w.buf, p[:acc]...)
		}
		w.Refused += len(p) - acc
		return acc, w.Err
	}
	w.segs = append(w.segs, Seg{task, len(w.buf), len(p)})
	w.buf = append(w.buf, p...)
	return len(p), nil
}

// ---- callback / iterator consumer -----------------------------------------------------------------

type Visit struct {
	Name     string
	Branch   string
	Row      string
	Level    uint
	Path     string
	HasChild bool
	Task     string
}

type CbPlan struct {
	FailAt int `json:"fail_at"` // visit index at which the callback fails / the consumer breaks; -1 never
	ErrVariant int `json:"err_variant"`
	Sticky     bool `json:"sticky"` // every visit from FailAt on fails (a callback that keeps failing)
}

var noCbFault = CbPlan{FailAt: -1}

type simCallback struct {
	plan   CbPlan
	inner  func()              // called by the callback / loop body at visit innerAt (re-entrant use of the library)
	innerAt int
	ptrs   []*gtree.WalkerNode // every node handed to the callback / loop body, re-read after the walk
	visits []Visit
	Fired  bool
	Err    error
	yield  bool
	after  int // callbacks made after the failing one (must stay 0 in simple mode)
}

func newSimCallback(plan CbPlan, yield bool) *simCallback {
	// the callback's error: exact sentinels included (a walk must hand back whatever it gets)
	var err error
	switch (plan.FailAt + plan.ErrVariant) % 6 {
	case 5:
		// a non-nil error value that holds a nil pointer: still an error, to be handed back as it is
		var np *nilPtrErr
		err = np
	case 1:
		err = io.EOF
	case 2:
		err = context.Canceled
	case 3:
		err = &stubErr{"callback stub"}
	case 4:
		err = fmt.Errorf("callback stub: %w", io.ErrUnexpectedEOF)
	default:
		err = errors.New("injected callback failure")
	}
	return &simCallback{plan: plan, yield: yield, Err: err}
}

func visitOf(wn *gtree.WalkerNode) Visit {
	if wn == nil {
		return Visit{Name: "<nil WalkerNode>", Row: "<nil WalkerNode>"}
	}
	return Visit{Name: wn.Name(), Branch: wn.Branch(), Row: wn.Row(), Level: wn.Level(), Path: wn.Path(), HasChild: wn.HasChild()}
}

func (cb *simCallback) fn(wn *gtree.WalkerNode) error {
	if cb.yield {
		simrt.Yield("stub:callback")
	}
	v := visitOf(wn)
	if t := simrt.CurrentTask(); t != nil {
		v.Task = t.ID
	}
	idx := len(cb.visits)
	cb.visits = append(cb.visits, v)
	cb.ptrs = append(cb.ptrs, wn)
	if idx == cb.innerAt && cb.inner != nil {
		cb.inner()
	}
	if cb.Fired {
		cb.after++
	}
	if cb.plan.FailAt >= 0 && (idx == cb.plan.FailAt || (cb.plan.Sticky && idx > cb.plan.FailAt)) {
		cb.Fired = true
		return cb.Err
	}
	return nil
}

// staleNodes re-reads every WalkerNode the walk handed out and reports the first whose
// facts are no longer what they were at its visit (a caller may keep the nodes).
func (cb *simCallback) staleNodes() string {
	for i, wn := range cb.ptrs {
		if wn == nil || i >= len(cb.visits) {
			continue
		}
		now := visitOf(wn)
		if visitKey(now) != visitKey(cb.visits[i]) {
			return fmt.Sprintf("node of visit %d was %s at its visit and reads %s after the walk", i, visitKey(cb.visits[i]), visitKey(now))
		}
	}
	return ""
}

// flushWriter is the caller's writer with an additional Flush() error method, as a
// *bufio.Writer has; Flush always succeeds.
type flushWriter struct{ *simWriter }

func (flushWriter) Flush() error { return nil }

// stringWriter is the caller's writer with a WriteString method of its own (io.StringWriter),
// subject to the same fault plan.
type stringWriter struct{ *simWriter }

func (w stringWriter) WriteString(s string) (int, error) { return w.simWriter.Write([]byte(s)) }
