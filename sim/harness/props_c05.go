package simharness

import (
	"context"
	"fmt"
	"io"
	"strings"

	"github.com/ddddddO/gtree"
)

func init() {
	register(&Property{
		ID:    "C05",
		Level: "fault_enumeration",
		Rule: "one case = (forest, branch strings, walk form: callback from Markdown / callback from root / iterator from root). The fault-free walk is compared with the text output of the same call family and with the model; " +
			"then the callback failure (callback forms) or the consumer's break (iterator form) is injected at EVERY visit index 0..n-1 - exhaustive per case. The iterator form runs under the simulator so that an iter.Pull coroutine that is not finished shows up as an unfinished goroutine at the end of the bubble. " +
			"In addition every run enumerates EXHAUSTIVELY all ordered forests with up to 6 (thorough: 7) nodes x 2 namings x 3 branch-string sets x the walk forms x every stop index (breakdown: exhaustive.*). Evaluations count single walks. non-trivial = forest with at least 3 nodes and an injected stop that fired; distinct = different (forest, options, form, stop index) hash",
		Case:  caseC05,
		Exhaustive: exhaustiveC05,
		Real:  []string{"gtree + gtree/markdown (instrumented copy of /repo working tree): simple-mode walkers, growers, iter.Pull2 coroutines"},
		Stubs: []string{"walk callback failing at visit k", "iterator consumer breaking at visit k", "scheduler/bubble (iterator form: coroutine clean-up)"},
	})
}

func modelVisits(forest []*MNode, branch []string) []Visit {
	lastD, lastI, midD, midI := "└──", "    ", "├──", "│   "
	if len(branch) == 4 {
		lastD, lastI, midD, midI = branch[0], branch[1], branch[2], branch[3]
	}
	var out []Visit
	var walk func(n *MNode, level uint, path string, prefix string, isLast bool)
	walk = func(n *MNode, level uint, path string, prefix string, isLast bool) {
		v := Visit{Name: n.Name, Level: level, Path: path, HasChild: len(n.Kids) > 0}
		next := prefix
		if level > 1 {
			if isLast {
				v.Branch = prefix + lastD
				next = prefix + lastI
			} else {
				v.Branch = prefix + midD
				next = prefix + midI
			}
			v.Row = v.Branch + " " + n.Name
		} else {
			v.Row = n.Name
		}
		out = append(out, v)
		for i, k := range n.Kids {
			walk(k, level+1, path+"/"+k.Name, next, i == len(n.Kids)-1)
		}
	}
	for _, r := range forest {
		walk(r, 1, r.Name, "", false)
	}
	return out
}

func caseC05(c *Ctx) {
	form := pickArm(c, []string{"callback/md", "callback/root", "iter/root"}, 4, 3, 3)
	alpha := []int{alphaPlain, alphaFS}[c.Draw(2)]
	fo := forestOpts{maxRoots: 3, maxExtra: 7, alpha: alpha, distinctRoots: c.Chance(1, 2), maxDepth: 5, maxFan: 4, shapes: true}
	if form != "callback/md" {
		fo.maxRoots = 1
	}
	forest := genForest(c, fo)
	if c.Chance(1, 10) {
		// long names: the document outgrows bufio.Scanner's initial 4 KiB buffer
		var pad func(n *MNode)
		pad = func(n *MNode) {
			n.Name += "-" + strings.Repeat("n", 180)
			for _, k := range n.Kids {
				pad(k)
			}
		}
		for _, r := range forest {
			pad(r)
		}
		for len(canonicalDoc(forest)) < 9000 {
			forest[0].Kids = append(forest[0].Kids, &MNode{Name: fmt.Sprintf("pad%d-%s", len(forest[0].Kids), strings.Repeat("p", 200))})
		}
		c.st.Count("document>4KiB")
	} else if c.Chance(1, 15) {
		// one line longer than 4 KiB (and shorter than bufio.Scanner's 64 KiB limit)
		n := forest[c.Draw(len(forest))]
		for len(n.Kids) > 0 && c.Draw(2) == 0 {
			n = n.Kids[c.Draw(len(n.Kids))]
		}
		n.Name += "-" + strings.Repeat("L", 4100+c.Draw(9000))
		c.st.Count("line>4KiB")
	}
	if c.Chance(1, 12) {
		// one node is called "." or "..": still a single path element, but not one that a
		// cleaned path keeps. Everything except Path is checked for such forests.
		var all []*MNode
		var collect func(n *MNode)
		collect = func(n *MNode) {
			all = append(all, n)
			for _, k := range n.Kids {
				collect(k)
			}
		}
		for _, r := range forest {
			collect(r)
		}
		all[c.Draw(len(all))].Name = []string{".", ".."}[c.Draw(2)]
		c.st.Count("dot-named-node")
	}
	branch := branchSets[c.Pick(3, 1, 1, 1, 1, 1, 1, 1, 1)]
	op := Op{Kind: "walk", Branch: branch}
	if branch != nil && c.Chance(1, 4) {
		op.BranchOnly = []string{"last", "mid"}[c.Draw(2)]
		branch = effectiveBranch(op)
	}
	switch form {
	case "callback/root":
		op.FromRoot = true
	case "iter/root":
		op.Kind, op.FromRoot = "walkiter", true
	}
	if c.Chance(1, 8) {
		op.Alias = true
	}
	sp := genSpellingSimple(c, forest)
	doc, parts := spell(c, forest, sp)
	levelJump := false
	if form == "callback/md" && c.Chance(1, 6) {
		// a line nested two levels deeper than its predecessor: simple mode accepts the document
		// and drops the line; whatever it renders, the walk must visit exactly that
		pi := c.Draw(len(parts))
		lines := strings.Split(strings.TrimRight(string(parts[pi]), "\n"), "\n")
		if len(lines) >= 3 {
			li := 2 + c.Draw(len(lines)-2)
			lines[li] = sp.Unit + sp.Unit + lines[li]
			parts[pi] = []byte(strings.Join(lines, "\n") + "\n")
			doc = joinParts(parts)
			levelJump = true
			c.st.Count("md-with-level-jump")
		}
	}
	errVariant := c.Draw(5)
	if len(branch) == 4 && strings.Join(branch, "") == strings.Join(branchSets[5], "") && c.Chance(1, 2) {
		// an earlier walk of another tree in this process, with branch strings that are cut
		// differently but read the same when written one after the other
		for _, i := range []int{5, 7, 8} {
			if tw := branchSets[i]; strings.Join(tw, "\x00") != strings.Join(branch, "\x00") {
				other := gtree.NewRoot("earlier")
				other.Add("x").Add("y")
				other.Add("z")
				gtree.WalkFromRoot(other, func(*gtree.WalkerNode) error { return nil },
					gtree.WithBranchFormatLastNode(tw[0], tw[1]), gtree.WithBranchFormatIntermedialNode(tw[2], tw[3]))
				c.Scenario["earlier_walk_with_branch_strings"] = tw
				c.st.Count("earlier-walk-with-twin-branch-strings")
				break
			}
		}
	}
	c05Check(c, form, forest, branch, op, doc, levelJump, errVariant, true)
}

// c05Check applies C05's oracles to one (forest, options, form): the fault-free walk and a
// stop at every visit index.
func c05Check(c *Ctx, form string, forest []*MNode, branch []string, op Op, doc []byte, levelJump bool, errVariant int, deferred bool) {
	c.Scenario["form"] = form
	c.Scenario["op"] = op.String()
	c.Scenario["forest"] = forestString(forest)
	c.Scenario["doc"] = string(doc)
	c.st.Count("form:" + form)
	nNodes := 0
	for _, r := range forest {
		nNodes += r.Count()
	}
	// now and then every walk of the case is made on one and the same tree object: a walk
	// that was stopped must leave nothing in the tree that changes the next walk
	var shared *gtree.Node
	if deferred && op.FromRoot && c.Chance(1, 3) {
		shared = buildNode(forest[0])
		c.st.Count("all-walks-on-one-tree-object")
	}
	mk := func(failAt int) *Env {
		e := &Env{Doc: doc, Reader: noReaderFault, Writer: noWriterFault, Cb: CbPlan{FailAt: failAt, ErrVariant: errVariant}}
		if op.FromRoot {
			e.Tree = forest[0]
			e.Node = shared
		}
		return e
	}
	// now and then the callback forms run under the scheduler too: whatever goroutine a walk
	// starts must be gone when the walk returns, also when it was stopped early
	simAll := deferred && c.Chance(1, 4)
	if simAll {
		c.st.Count("callback-forms-under-the-scheduler")
	}
	run := func(failAt int) *Outcome {
		c.st.Count("evaluations")
		if op.Kind == "walkiter" || simAll {
			e := mk(failAt)
			e.MaxSteps = 20000
			e.AllowBubbleErr = true
			return c.Sim(fmt.Sprintf("k%d", failAt), op, e)
		}
		return c.Direct(op, mk(failAt))
	}
	// ---- fault-free walk: same nodes, same order, consistent facts
	base := run(-1)
	if levelJump && base.Err != nil && len(base.Panics) == 0 {
		c.Skip("level-jump document rejected by the parser")
	}
	if len(base.Panics) > 0 || base.Err != nil || base.Hang || base.BubbleErr != "" {
		c.Failf("C05:fault-free-walk-failed:"+form, "err=%s panics=%v hang=%v bubble=%s", errStr(base.Err), base.Panics, base.Hang, base.BubbleErr)
	}
	if base.StaleNodes != "" {
		c.Failf("C05:walker-node-changes-after-its-visit:"+form, "%s", base.StaleNodes)
	}
	want := modelVisits(forest, branch)
	if levelJump {
		// no model for such a document: the reference is the text output alone
		outOp := Op{Kind: "output", Branch: branch}
		txt := c.Direct(outOp, mk(-1))
		if txt.Err != nil {
			c.Skip("level-jump document rejected")
		}
		lines := strings.Split(strings.TrimSuffix(string(txt.Out), "\n"), "\n")
		if len(lines) != len(base.Visits) {
			c.Failf("C05:output-lines-vs-visits:"+form, "document with a level jump: %d output lines, %d visits\noutput:\n%s", len(lines), len(base.Visits), txt.Out)
		}
		for i, v := range base.Visits {
			if v.Row != lines[i] {
				c.Failf("C05:row-differs-from-output-line:"+form, "document with a level jump: visit %d: Row %q, output line %q", i, v.Row, lines[i])
			}
		}
		return
	}
	if len(base.Visits) != len(want) {
		c.Failf("C05:visit-count:"+form, "visited %d nodes, the tree has %d", len(base.Visits), len(want))
	}
	// text output of the same call family
	outOp := Op{Kind: "output", Branch: branch, FromRoot: op.FromRoot}
	txt := c.Direct(outOp, mk(-1))
	lines := strings.Split(strings.TrimSuffix(string(txt.Out), "\n"), "\n")
	for i, v := range base.Visits {
		w := want[i]
		switch {
		case i < len(lines) && v.Row != lines[i]:
			c.Failf("C05:row-differs-from-output-line:"+form, "visit %d: Row %q, output line %q", i, v.Row, lines[i])
		case v.Level > 1 && v.Row != v.Branch+" "+v.Name, v.Level == 1 && v.Row != v.Name:
			c.Failf("C05:row-not-branch-space-name:"+form, "visit %d: Row %q Branch %q Name %q", i, v.Row, v.Branch, v.Name)
		case v.Name != w.Name || v.Level != w.Level:
			c.Failf("C05:order-or-level:"+form, "visit %d: got %s level %d, model %s level %d", i, v.Name, v.Level, w.Name, w.Level)
		case v.Path != w.Path && !hasDotElement(w.Path):
			c.Failf("C05:path:"+form, "visit %d (%s): Path %q, model %q", i, v.Name, v.Path, w.Path)
		case v.HasChild != w.HasChild:
			c.Failf("C05:haschild:"+form, "visit %d (%s): HasChild %v, model %v", i, v.Name, v.HasChild, w.HasChild)
		case v.Branch != w.Branch:
			c.Failf("C05:branch:"+form, "visit %d (%s): Branch %q, model %q", i, v.Name, v.Branch, w.Branch)
		}
	}
	if len(lines) != len(want) && !(len(want) == 0) {
		c.Failf("C05:output-lines-vs-visits:"+form, "%d output lines, %d visits", len(lines), len(want))
	}
	// ---- stop at every visit index
	ks := make([]int, 0, len(want))
	if k, ok := c.Param("k"); ok {
		ks = append(ks, k)
	} else {
		for k := 0; k < len(want); k++ {
			ks = append(ks, k)
		}
	}
	for _, k := range ks {
		out := run(k)
		fail := func(sig, f string, a ...any) {
			if shared == nil {
				c.SetParam("k", k) // (on one shared tree object the walks are a sequence: a replay repeats all of them)
			}
			c.Scenario["stop_at"] = k
			c.Failf(sig, f, a...)
		}
		if k >= len(want) {
			continue
		}
		if nNodes >= 3 && out.CbFired {
			c.st.Distinct("nontrivial", mix(hashStr(forestString(forest)+op.String()), uint64(k)))
		}
		if len(out.Panics) > 0 {
			fail("C05:panic-on-stop:"+form, "stop at visit %d: panic %s", k, out.Panics[0].Value)
		}
		if !out.CbFired {
			fail("C05:stop-not-reached:"+form, "stop at visit %d was never reached (%d visits)", k, len(out.Visits))
		}
		if len(out.Visits) != k+1 {
			fail("C05:visits-after-stop:"+form, "stop at visit %d: %d callbacks / loop bodies ran, want exactly %d", k, len(out.Visits), k+1)
		}
		for i := 0; i <= k && i < len(out.Visits); i++ {
			if visitKey(out.Visits[i]) != visitKey(base.Visits[i]) {
				fail("C05:prefix-differs:"+form, "stop at visit %d: visit %d is %s, fault-free walk had %s", k, i, visitKey(out.Visits[i]), visitKey(base.Visits[i]))
			}
		}
		if op.Kind != "walkiter" && simAll && (out.BubbleErr != "" || out.Hang || len(out.Leaks) > 0) {
			fail("C05:goroutine-left-behind:"+form, "the callback failed at visit %d, the walk returned %v, and a goroutine it started is still there: %s %s", k, out.Err, out.BubbleErr, leakSig(out))
		}
		if op.Kind == "walkiter" {
			if out.Err != nil {
				fail("C05:iter-error-on-break:"+form, "breaking out of the iterator at visit %d produced error %v", k, out.Err)
			}
			if out.BubbleErr != "" || out.Hang || len(out.Leaks) > 0 {
				fail("C05:iter-coroutine-left-behind:"+form, "breaking out of the iterator at visit %d left a goroutine behind: %s", k, out.BubbleErr)
			}
		} else if out.Err != out.CbErr {
			fail("C05:callback-error-not-returned-unchanged:"+form, "callback failed at visit %d with %v; the walk returned %v", k, out.CbErr, out.Err)
		}
	}
	if shared != nil {
		again := run(-1)
		if again.Err != nil || len(again.Visits) != len(base.Visits) {
			c.Failf("C05:walk-after-stopped-walks-differs:"+form, "after walks of the same tree object that were stopped at every index, a complete walk returns %v with %d visits (the first one had %d)", again.Err, len(again.Visits), len(base.Visits))
		}
		for i := range again.Visits {
			if visitKey(again.Visits[i]) != visitKey(base.Visits[i]) {
				c.Failf("C05:walk-after-stopped-walks-differs:"+form, "visit %d is %s, the first walk of the tree had %s", i, visitKey(again.Visits[i]), visitKey(base.Visits[i]))
			}
		}
	}
	c.st.Sample(form, map[string]any{"form": form, "op": op.String(), "forest": forestString(forest), "stop_indices_enumerated": len(ks)})
	if op.Kind == "walkiter" && deferred {
		c05Deferred(c, forest[0], branch, op.Alias)
	}
}

// c05Deferred: an iterator is created, the program does something else with the same tree
// (adds a node, renders it with other branch strings), and only then consumes the
// iterator - once, and a second time. Each consumption is a walk of the tree as it is then.
func c05Deferred(c *Ctx, model *MNode, branch []string, alias bool) {
	m := model.Clone()
	root := buildNode(m)
	opts := opOptions(Op{Branch: branch}, context.Background(), "")
	it := gtree.WalkIterFromRoot(root, opts...)
	if alias {
		it = gtree.WalkIterProgrammably(root, opts...)
	}
	action := c.Draw(4)
	var acts []string
	if action == 1 || action == 3 {
		root.Add("late-node")
		m.Kids = append(m.Kids, &MNode{Name: "late-node"})
		acts = append(acts, "Add(late-node) under the root")
	}
	if action == 2 || action == 3 {
		other := branchSets[1]
		if len(branch) == 4 && branch[0] == other[0] {
			other = branchSets[3]
		}
		if len(branch) == 4 && strings.Join(branch, "") == strings.Join(branchSets[5], "") {
			// other strings, the same text when concatenated
			for _, i := range []int{5, 7, 8} {
				if strings.Join(branchSets[i], "\x00") != strings.Join(branch, "\x00") {
					other = branchSets[i]
					break
				}
			}
		}
		gtree.OutputFromRoot(io.Discard, root, gtree.WithBranchFormatLastNode(other[0], other[1]), gtree.WithBranchFormatIntermedialNode(other[2], other[3]))
		acts = append(acts, "OutputFromRoot with other branch strings")
	}
	c.st.Count("deferred-consumption")
	c.Scenario["between_creation_and_consumption"] = acts
	want := modelVisits([]*MNode{m}, branch)
	for round := 1; round <= 2; round++ {
		var got []Visit
		var gerr error
		for wn, err := range it {
			if err != nil {
				gerr = err
				break
			}
			got = append(got, visitOf(wn))
		}
		c.st.Count("evaluations")
		if round == 2 {
			// a third consumption with another, abandoned walk nested in its loop body
			other := buildNode(&MNode{Name: "other", Kids: []*MNode{{Name: "x"}, {Name: "y"}}})
			var nested []Visit
			for wn, err := range it {
				if err != nil {
					gerr = err
					break
				}
				nested = append(nested, visitOf(wn))
				if len(nested) == 1+len(want)/2 {
					for range gtree.WalkIterFromRoot(other) {
						break // leave the inner walk at its first node
					}
				}
			}
			if len(nested) != len(want) {
				c.Failf("C05:walk-disturbed-by-another-walk", "an iterator walk during which another tree's iterator was started and left early visited %d of %d nodes", len(nested), len(want))
			}
		}
		if gerr != nil {
			c.Failf("C05:deferred-iteration-error", "round %d: %v", round, gerr)
		}
		if len(got) != len(want) {
			c.Failf("C05:deferred-iteration-visit-count", "iterator consumed after %v (round %d): %d visits, the tree has %d nodes", acts, round, len(got), len(want))
		}
		for i := range got {
			if hasDotElement(want[i].Path) {
				got[i].Path = want[i].Path // Path is not fixed for "." and ".." names
			}
			if visitKey(got[i]) != visitKey(want[i]) {
				c.Failf("C05:deferred-iteration-stale", "iterator consumed after %v (round %d): visit %d is %s, the tree as it is now gives %s", acts, round, i, visitKey(got[i]), visitKey(want[i]))
			}
		}
	}
}

// ---- C05: every small forest -------------------------------------------------------------------------

// enumForests returns all ordered forests with exactly n nodes (shape only).
func enumForests(n int) [][]*MNode {
	if n == 0 {
		return [][]*MNode{nil}
	}
	var out [][]*MNode
	// first tree has k nodes (root + forest of k-1 nodes as children), the rest is a forest of n-k
	for k := 1; k <= n; k++ {
		for _, kids := range enumForests(k - 1) {
			for _, rest := range enumForests(n - k) {
				t := &MNode{Kids: cloneForest(kids)}
				out = append(out, append([]*MNode{t}, cloneForest(rest)...))
			}
		}
	}
	return out
}

func cloneForest(f []*MNode) []*MNode {
	out := make([]*MNode, len(f))
	for i, t := range f {
		out[i] = t.Clone()
	}
	return out
}

// exhaustiveC05: all ordered forests with up to N nodes (N = 6 quick, 7 thorough), sibling
// names a, b, c, ... in order (so that they are distinct) or all roots named alike, three
// branch-string sets, the three walk forms, and a stop at every visit index.
func exhaustiveC05(c *Ctx, part, parts int) {
	N := 6
	if *fTier == "thorough" {
		N = 7
	}
	only, fixed := c.Param("point")
	idx := -1
	checked := 0
	forms := []string{"callback/md", "callback/root", "iter/root"}
	bsets := [][]string{nil, branchSets[1], branchSets[5]}
	for n := 1; n <= N; n++ {
		for _, shape := range enumForests(n) {
			for naming := 0; naming < 2; naming++ {
				for fi, form := range forms {
					if form != "callback/md" && len(shape) != 1 {
						continue
					}
					for bi, branch := range bsets {
						idx++
						if fixed {
							if idx != only {
								continue
							}
						} else if idx%parts != part {
							continue
						}
						forest := cloneForest(shape)
						var name func(ns []*MNode, depth int)
						name = func(ns []*MNode, depth int) {
							for i, t := range ns {
								t.Name = string(rune('a' + i))
								if naming == 1 && depth == 0 {
									t.Name = "r" // equally named roots are separate roots
								}
								name(t.Kids, depth+1)
							}
						}
						name(forest, 0)
						op := Op{Kind: "walk", Branch: branch}
						switch form {
						case "callback/root":
							op.FromRoot = true
						case "iter/root":
							op.Kind, op.FromRoot = "walkiter", true
						}
						c.SetParam("point", idx)
						c05Check(c, form, forest, branch, op, canonicalDoc(forest), false, fi+bi, false)
						checked++
					}
				}
			}
		}
	}
	c.st.Add("exhaustive.points-checked", checked)
	c.st.Sample("exhaustive", map[string]any{"exhaustive_arm": "all ordered forests with <= N nodes x 2 namings x 3 branch sets x walk forms x every stop index", "N": N})
}

// hasDotElement tells whether a model path contains an element "." or "..": the statement
// fixes Path for names that are ordinary single path elements only.
func hasDotElement(p string) bool {
	for _, e := range strings.Split(p, "/") {
		if e == "." || e == ".." {
			return true
		}
	}
	return false
}
