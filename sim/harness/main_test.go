package simharness

import (
	"syscall"
	"encoding/json"
	"flag"
	"fmt"
	"os"
	"runtime"
	"runtime/debug"
	"sort"
	"strings"
	"sync/atomic"
	"testing"
	"time"

	"github.com/ddddddO/gtree"
	"github.com/ddddddO/gtree/markdown"
	"github.com/fatih/color"
)

var (
	fProp    = flag.String("sim.prop", "", "property id")
	fSeed    = flag.Uint64("sim.seed", 1, "VERIF_SEED")
	fFrom    = flag.Int("sim.from", 0, "first case index")
	fTo      = flag.Int("sim.to", 100, "last case index (exclusive)")
	fStride  = flag.Int("sim.stride", 1, "case index stride (worker count)")
	fOut     = flag.String("sim.out", "", "result file (JSON)")
	fBudget  = flag.Float64("sim.budget", 0, "wall-clock budget in seconds (0: none)")
	fReplay  = flag.String("sim.replay", "", "replay a record file")
	fTier    = flag.String("sim.tier", "quick", "quick | thorough")
	fShrinkS = flag.Float64("sim.shrinkbudget", 8, "seconds per signature for minimisation")
	fVerbose = flag.Bool("sim.v", false, "verbose")
	fDump    = flag.Bool("sim.dump", false, "dump the event log of every case (determinism self-test)")
	fArm     = flag.String("sim.arm", "", "restrict to one arm of the property (debugging)")
	fCaseTimeout = flag.Float64("sim.casetimeout", 45, "wall-clock seconds after which a single case is declared stuck (exit 4)")
)

// Stats accumulates what a worker explored.
type Stats struct {
	Counts   map[string]int
	Sets     map[string]map[uint64]struct{}
	Samples  []any
	sampleKeys map[string]bool
}

func newStats() *Stats {
	return &Stats{Counts: map[string]int{}, Sets: map[string]map[uint64]struct{}{}, sampleKeys: map[string]bool{}}
}

func (s *Stats) Count(k string)        { s.Counts[k]++ }
func (s *Stats) Add(k string, n int)   { s.Counts[k] += n }
// maxSetSize bounds the memory of a worker: beyond it a set stops growing and the reported
// number of distinct items is a lower bound (counted in "set-capped:<name>").
const maxSetSize = 200000

func (s *Stats) Distinct(k string, h uint64) {
	m := s.Sets[k]
	if m == nil {
		m = map[uint64]struct{}{}
		s.Sets[k] = m
	}
	if len(m) >= maxSetSize {
		if _, ok := m[h]; !ok {
			s.Counts["set-capped:"+k]++
		}
		return
	}
	m[h] = struct{}{}
}

// Sample keeps at most one sample per key, a handful overall.
func (s *Stats) Sample(key string, v any) {
	if s.sampleKeys[key] || len(s.Samples) >= 12 {
		return
	}
	s.sampleKeys[key] = true
	s.Samples = append(s.Samples, v)
}

// Property is one claimed property: a case generator + oracle.
type Property struct {
	ID    string
	Level string
	Rule  string
	Case  func(c *Ctx)
	// Exhaustive, if set, enumerates a bounded space completely (slice part of parts); it is
	// run once per worker before the sampled cases. A failing point is named by parameters.
	Exhaustive func(c *Ctx, part, parts int)
	Real  []string
	Stubs []string
	Assumptions []string
}

var properties = map[string]*Property{}

func register(p *Property) { properties[p.ID] = p }

// runCase executes one case and returns its failure (nil if the property held).
// runExhaustive runs the property's exhaustive enumeration (or, on replay, its one point).
func runExhaustive(p *Property, c *Ctx, part, parts int) (f *failure) {
	gtree.SimResetGlobals()
	markdown.SimResetGlobals()
	defer func() {
		if r := recover(); r != nil {
			if _, ok := r.(caseAbort); ok {
				f = c.fail
				return
			}
			fmt.Fprintf(os.Stderr, "HARNESS-PANIC %v\n%s\n", r, debug.Stack())
			os.Exit(3)
		}
	}()
	p.Exhaustive(c, part, parts)
	return c.fail
}

func runCase(p *Property, c *Ctx) (f *failure) {
	// every case starts from the package-level state of a fresh process
	gtree.SimResetGlobals()
	markdown.SimResetGlobals()
	color.NoColor = true // (what fatih/color decides at start-up when stdout is not a terminal)
	syscall.Umask(0o022) // the process's file mode creation mask, as at start-up
	defer func() {
		if r := recover(); r != nil {
			if _, ok := r.(caseAbort); ok {
				f = c.fail
				c.flushSched()
				return
			}
			// a bug in the harness itself: never a VIOLATION
			fmt.Fprintf(os.Stderr, "HARNESS-PANIC %v\n%s\n", r, debug.Stack())
			os.Exit(3)
		}
	}()
	p.Case(c)
	c.flushSched()
	return c.fail
}

func recordOf(c *Ctx, idx int, f *failure) *Record {
	rec := &Record{Prop: c.Prop, Seed: c.Seed, Index: idx, Gen: append([]int(nil), c.gen...), Params: map[string]int{}, Sched: map[string][]int{}, GoMaxProcs: runtime.GOMAXPROCS(0)}
	for k, v := range c.ParamsOut {
		rec.Params[k] = v
	}
	for k, v := range c.SchedOut {
		rec.Sched[k] = append([]int(nil), v...)
	}
	if f != nil {
		rec.Sig = f.sig
		rec.Detail = f.detail
	}
	rec.Scenario = c.Scenario
	return rec
}

// replayRecord runs the case described by rec; it returns the signature observed ("" if
// the property held) and the completed record.
func replayRecord(p *Property, rec *Record, trace bool) (string, *Record) {
	c := newReplayCtx(rec, newStats())
	c.keepTrace = trace
	var f *failure
	if rec.Exhaustive {
		f = runExhaustive(p, c, 0, 1)
	} else {
		f = runCase(p, c)
	}
	out := recordOf(c, rec.Index, f)
	out.Gen = rec.Gen
	out.Exhaustive = rec.Exhaustive
	// parameters fixed by the input record stay fixed
	for k, v := range rec.Params {
		if _, ok := out.Params[k]; !ok {
			out.Params[k] = v
		}
	}
	out.Trace = c.lastTrace
	if f == nil {
		return "", out
	}
	return f.sig, out
}

type workerResult struct {
	Prop      string              `json:"property"`
	Seed      uint64              `json:"seed"`
	Cases     int                 `json:"cases"`
	WallS     float64             `json:"wall_s"`
	Counts    map[string]int      `json:"counts"`
	Sets      map[string][]string `json:"sets"`
	Samples   []any               `json:"samples"`
	Failures  []*Record           `json:"failures"`
	SigCounts map[string]int      `json:"sig_counts"`
	Nondet    []string            `json:"nondeterministic,omitempty"`
	Meta      map[string]any      `json:"meta"`
}

func TestSim(t *testing.T) {
	theT = t
	color.NoColor = true
	debug.SetGCPercent(400)
	defer cleanupJailBase()
	if *fReplay != "" {
		doReplay(t)
		return
	}
	if *fProp == "" {
		t.Skip("no -sim.prop")
	}
	p := properties[*fProp]
	if p == nil {
		fmt.Fprintf(os.Stderr, "unknown property %q\n", *fProp)
		os.Exit(2)
	}
	st := newStats()
	res := &workerResult{Prop: p.ID, Seed: *fSeed, SigCounts: map[string]int{},
		Meta: map[string]any{"rule": p.Rule, "real": p.Real, "stubs": p.Stubs, "assumptions": p.Assumptions}}
	start := time.Now()
	var dump *os.File
	if *fDump {
		dump, _ = os.Create(*fOut + ".dump")
		defer dump.Close()
	}
	shrunk := map[string]bool{}
	if p.Exhaustive != nil && *fStride > 0 {
		c := newGenCtx(p.ID, mix(*fSeed, 0xe8a5), st)
		caseStart.Store(0)
		if f := runExhaustive(p, c, *fFrom%*fStride, *fStride); f != nil {
			res.SigCounts[f.sig]++
			rec := recordOf(c, -1, f)
			rec.Exhaustive = true
			if sig2, _ := replayRecord(p, rec, false); sig2 != f.sig {
				res.Nondet = append(res.Nondet, fmt.Sprintf("exhaustive point %v: generated %q, replay gave %q; detail: %s", rec.Params, f.sig, sig2, f.detail))
			} else {
				shrunk[f.sig] = true
				_, full := replayRecord(p, rec, true)
				full.Sig = f.sig
				res.Failures = append(res.Failures, full)
			}
		}
	}
	// progress file + watchdog: a case that kills the process (fatal runtime error) or never
	// ends (a loop that reaches no hook) is identified by the driver from the last index
	var cur *os.File
	if *fOut != "" {
		cur, _ = os.Create(*fOut + ".cur")
	}
	startWatchdog()
	for idx := *fFrom; idx < *fTo; idx += *fStride {
		if *fBudget > 0 && time.Since(start).Seconds() > *fBudget {
			break
		}
		if cur != nil {
			cur.WriteAt([]byte(fmt.Sprintf("%-20d", idx)), 0)
		}
		caseIdx.Store(int64(idx))
		caseStart.Store(time.Now().UnixNano())
		seed := mix(*fSeed, uint64(idx)+1)
		c := newGenCtx(p.ID, seed, st)
		c.keepTrace = *fDump
		f := runCase(p, c)
		res.Cases++
		if dump != nil {
			sig := ""
			if f != nil {
				sig = f.sig
			}
			fmt.Fprintf(dump, "%d gen=%x sched=%x sig=%s trace=%x\n", idx, hashInts(c.gen), hashSched(c.SchedOut), sig, hashTrace(c.lastTrace))
		}
		if f == nil {
			continue
		}
		res.SigCounts[f.sig]++
		if shrunk[f.sig] {
			continue
		}
		shrunk[f.sig] = true
		rec := recordOf(c, idx, f)
		// confirm in-process from the recorded streams
		sig2, _ := replayRecord(p, rec, false)
		if sig2 != f.sig {
			res.Nondet = append(res.Nondet, fmt.Sprintf("case %d: generated %q, replay from record gave %q; detail: %s", idx, f.sig, sig2, f.detail))
			continue
		}
		min := shrink(p, rec, time.Duration(*fShrinkS*float64(time.Second)))
		_, full := replayRecord(p, min, true)
		full.Sig = f.sig
		res.Failures = append(res.Failures, full)
	}
	caseStart.Store(0)
	res.WallS = time.Since(start).Seconds()
	res.Counts = st.Counts
	res.Sets = map[string][]string{}
	for k, m := range st.Sets {
		l := make([]string, 0, len(m))
		for h := range m {
			l = append(l, fmt.Sprintf("%x", h))
		}
		sort.Strings(l)
		res.Sets[k] = l
	}
	res.Samples = st.Samples
	if *fOut != "" {
		b, _ := json.Marshal(res)
		if err := os.WriteFile(*fOut, b, 0o644); err != nil {
			fmt.Fprintln(os.Stderr, err)
			os.Exit(2)
		}
	} else {
		b, _ := json.MarshalIndent(map[string]any{"cases": res.Cases, "wall_s": res.WallS, "counts": res.Counts, "sigs": res.SigCounts, "nondet": res.Nondet}, "", " ")
		fmt.Println(string(b))
		for _, f := range res.Failures {
			fb, _ := json.Marshal(map[string]any{"sig": f.Sig, "detail": f.Detail, "gen": len(f.Gen), "scenario": f.Scenario})
			fmt.Println(string(b[:0]) + string(fb))
		}
	}
}

var caseStart, caseIdx atomic.Int64

func startWatchdog() {
	go func() {
		for {
			time.Sleep(2 * time.Second)
			if st := caseStart.Load(); st != 0 && time.Since(time.Unix(0, st)).Seconds() > *fCaseTimeout {
				fmt.Fprintf(os.Stderr, "WATCHDOG case %d has been running for more than %.0fs\n", caseIdx.Load(), *fCaseTimeout)
				os.Exit(4)
			}
		}
	}()
}

func doReplay(t *testing.T) {
	startWatchdog()
	caseStart.Store(time.Now().UnixNano())
	b, err := os.ReadFile(*fReplay)
	if err != nil {
		fmt.Fprintln(os.Stderr, err)
		os.Exit(2)
	}
	var rec Record
	if err := json.Unmarshal(b, &rec); err != nil {
		fmt.Fprintln(os.Stderr, err)
		os.Exit(2)
	}
	p := properties[rec.Prop]
	if p == nil {
		fmt.Fprintf(os.Stderr, "unknown property %q\n", rec.Prop)
		os.Exit(2)
	}
	if rec.FromSeed {
		// the case is regenerated from its seed (records of cases that killed the process)
		c := newGenCtx(p.ID, mix(rec.Seed, uint64(rec.Index)+1), newStats())
		f := runCase(p, c)
		sig := ""
		if f != nil {
			sig = f.sig
		}
		fmt.Printf("{\n \"property\": %q, \"expected\": %q, \"observed\": %q, \"reproduced\": false\n}\n", rec.Prop, rec.Sig, sig)
		return
	}
	sig, full := replayRecord(p, &rec, true)
	res := map[string]any{"property": rec.Prop, "expected": rec.Sig, "observed": sig, "reproduced": sig == rec.Sig && sig != "", "detail": full.Detail, "scenario": full.Scenario, "trace_len": len(full.Trace), "trace_hash": fmt.Sprintf("%x", hashTrace(full.Trace))}
	out, _ := json.MarshalIndent(res, "", " ")
	if *fOut != "" {
		os.WriteFile(*fOut, out, 0o644)
	}
	fmt.Println(string(out))
	if *fVerbose {
		for i, s := range full.Trace {
			fmt.Printf("%4d %-10s %-6s %s\n", i, s.Task, s.Kind, s.Site)
		}
	}
}

func hashInts(v []int) uint64 {
	h := uint64(14695981039346656037)
	for _, x := range v {
		h ^= uint64(x)
		h *= 1099511628211
	}
	return h
}

func hashSched(m map[string][]int) uint64 {
	keys := make([]string, 0, len(m))
	for k := range m {
		keys = append(keys, k)
	}
	sort.Strings(keys)
	h := uint64(14695981039346656037)
	for _, k := range keys {
		h ^= hashStr(k)
		h *= 1099511628211
		h ^= hashInts(m[k])
		h *= 1099511628211
	}
	return h
}

func hashStr(s string) uint64 {
	h := uint64(14695981039346656037)
	for i := 0; i < len(s); i++ {
		h ^= uint64(s[i])
		h *= 1099511628211
	}
	return h
}

func hashTrace(tr []simrtStep) uint64 {
	h := uint64(14695981039346656037)
	for _, s := range tr {
		h ^= hashStr(s.Task + "|" + s.Site + "|" + s.Kind)
		h *= 1099511628211
	}
	return h
}

func stackTrace() string {
	buf := make([]byte, 8<<10)
	n := runtime.Stack(buf, false)
	return string(buf[:n])
}

// ---- minimisation -------------------------------------------------------------------------------

func cloneRec(r *Record) *Record {
	c := *r
	c.Gen = append([]int(nil), r.Gen...)
	c.Params = map[string]int{}
	for k, v := range r.Params {
		c.Params[k] = v
	}
	c.Sched = map[string][]int{}
	for k, v := range r.Sched {
		c.Sched[k] = append([]int(nil), v...)
	}
	return &c
}

// shrink minimises the record while the same violation signature persists.
func shrink(p *Property, rec *Record, budget time.Duration) *Record {
	deadline := time.Now().Add(budget)
	best := cloneRec(rec)
	attempts := 0
	try := func(cand *Record) bool {
		if time.Now().After(deadline) {
			return false
		}
		attempts++
		sig, _ := replayRecord(p, cand, false)
		if sig == rec.Sig {
			best = cand
			return true
		}
		return false
	}
	shrinkList := func(get func(r *Record) []int, set func(r *Record, v []int), pairs bool) {
		// 1. all zero
		l := get(best)
		if len(l) == 0 {
			return
		}
		z := cloneRec(best)
		set(z, make([]int, len(l)))
		if try(z) {
			l = get(best)
		}
		// 2. truncate tail (halving)
		for n := len(l) / 2; n >= 1; n /= 2 {
			for len(get(best)) > 0 {
				l = get(best)
				k := len(l) - n
				if k < 0 {
					break
				}
				if pairs {
					k -= k % 2
				}
				cnd := cloneRec(best)
				set(cnd, append([]int(nil), l[:k]...))
				if !try(cnd) {
					break
				}
			}
			if time.Now().After(deadline) {
				return
			}
		}
		// 3. delete chunks (gen only) / zero chunks
		for size := 16; size >= 1; size /= 2 {
			step := size
			if pairs {
				step = size * 2
			}
			for i := 0; i+step <= len(get(best)); {
				l = get(best)
				if !pairs {
					cnd := cloneRec(best)
					nl := append(append([]int(nil), l[:i]...), l[i+step:]...)
					set(cnd, nl)
					if try(cnd) {
						continue
					}
				}
				allZero := true
				for _, v := range l[i : i+step] {
					if v != 0 {
						allZero = false
					}
				}
				if !allZero {
					cnd := cloneRec(best)
					nl := append([]int(nil), l...)
					for j := i; j < i+step; j++ {
						nl[j] = 0
					}
					set(cnd, nl)
					try(cnd)
				}
				i += step
				if time.Now().After(deadline) {
					return
				}
			}
		}
		// 4. lower single values
		if !pairs {
			for i := 0; i < len(get(best)); i++ {
				l = get(best)
				for _, nv := range []int{l[i] / 2, l[i] - 1} {
					if nv >= 0 && nv < l[i] {
						cnd := cloneRec(best)
						nl := append([]int(nil), get(cnd)...)
						nl[i] = nv
						set(cnd, nl)
						if try(cnd) {
							break
						}
					}
				}
				if time.Now().After(deadline) {
					return
				}
			}
		}
	}
	for round := 0; round < 3 && time.Now().Before(deadline); round++ {
		before := sizeOf(best)
		names := make([]string, 0, len(best.Sched))
		for k := range best.Sched {
			names = append(names, k)
		}
		sort.Strings(names)
		for _, name := range names {
			n := name
			shrinkList(func(r *Record) []int { return r.Sched[n] }, func(r *Record, v []int) { r.Sched[n] = v }, true)
		}
		pn := make([]string, 0, len(best.Params))
		for k := range best.Params {
			pn = append(pn, k)
		}
		sort.Strings(pn)
		for _, k := range pn {
			for _, nv := range []int{0, best.Params[k] / 2, best.Params[k] - 1} {
				if nv >= 0 && nv < best.Params[k] {
					cnd := cloneRec(best)
					cnd.Params[k] = nv
					if try(cnd) {
						break
					}
				}
			}
		}
		shrinkList(func(r *Record) []int { return r.Gen }, func(r *Record, v []int) { r.Gen = v }, false)
		if sizeOf(best) >= before {
			break
		}
	}
	if *fVerbose {
		fmt.Fprintf(os.Stderr, "shrink %s: %d attempts, size %d -> %d\n", rec.Sig, attempts, sizeOf(rec), sizeOf(best))
	}
	return best
}

func sizeOf(r *Record) int {
	n := 0
	for _, v := range r.Gen {
		n += 1 + v
	}
	for _, l := range r.Sched {
		for _, v := range l {
			if v != 0 {
				n += 2
			}
		}
		n += len(l)
	}
	for _, v := range r.Params {
		n += v
	}
	return n
}

var _ = strings.Join
