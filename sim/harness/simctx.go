package simharness

import (
	"fmt"

	"github.com/ddddddO/gtree/simrt"
)

type simrtStep = simrt.Step

// Sim runs op under the simulator as the named run of this case and accounts for it.
func (c *Ctx) Sim(name string, op Op, env *Env) *Outcome {
	env.Sim = true
	c.execN++
	env.MapSeed = mix(c.Seed, 0x6d61700000+uint64(c.execN))
	if env.Chooser == nil {
		env.Chooser = c.Chooser(name, -1)
	}
	env.Trace = c.keepTrace
	out := Exec(op, env)
	c.flushSched()
	st := c.st
	st.Count("sim.runs")
	st.Add("sim.steps", out.Steps)
	st.Add("sim.tasks", out.Tasks)
	st.Add("sim.wall_us", int(out.WallNS/1000))
	st.Distinct("interleavings.full", out.TraceHash)
	st.Distinct("interleavings.persite", out.OrderHash)
	for k, v := range out.Probes {
		st.Add("probe:"+k, v)
	}
	c.countFaults(out)
	if out.CancelFired && env.Ctx.Mode == "deadline" {
		st.Add("sim.fake_clock_s", 7200)
	}
	if c.keepTrace {
		c.lastTrace = out.Trace
	}
	if out.Tampered != "" {
		c.Failf(c.Prop+":callers-slice-modified:"+op.Kind, "%s: %s", op, out.Tampered)
	}
	if out.ReaderClosed > 0 {
		c.Failf(c.Prop+":callers-reader-closed:"+op.Kind, "%s: the library called Close on the caller's reader (%d times); the reader is the caller's to close", op, out.ReaderClosed)
	}
	if out.BubbleErr != "" && env.Ctx.Mode == "own" && !out.Hang && len(out.Leaks) == 0 && len(out.Panics) == 0 {
		// every task of the simulator has finished and yet goroutines of the bubble remain:
		// started by code the instrumenter does not see (package context watching the caller's
		// own context type)
		out.Untracked = 1
	} else if out.BubbleErr != "" && !env.AllowBubbleErr && !out.Hang && len(out.Leaks) == 0 && len(out.Panics) == 0 {
		// the bubble failed for a reason the simulator does not understand: never a verdict
		panic(fmt.Sprintf("bubble error without hang/leak/panic: %s", out.BubbleErr))
	}
	return out
}

// Direct runs op without the scheduler (hooks are pass-throughs) and accounts for it.
func (c *Ctx) Direct(op Op, env *Env) *Outcome {
	env.Sim = false
	c.execN++
	env.MapSeed = mix(c.Seed, 0x6d61700000+uint64(c.execN))
	out := Exec(op, env)
	c.st.Count("direct.runs")
	c.countFaults(out)
	if out.Tampered != "" {
		c.Failf(c.Prop+":callers-slice-modified:"+op.Kind, "%s: %s", op, out.Tampered)
	}
	if out.ReaderClosed > 0 {
		c.Failf(c.Prop+":callers-reader-closed:"+op.Kind, "%s: the library called Close on the caller's reader (%d times); the reader is the caller's to close", op, out.ReaderClosed)
	}
	return out
}

func (c *Ctx) countFaults(out *Outcome) {
	st := c.st
	if out.ReaderFired {
		st.Count("fault.fired:reader")
	}
	if out.WriterFired {
		st.Count("fault.fired:writer")
	}
	if out.CbFired {
		st.Count("fault.fired:callback/consumer")
	}
	if out.DiskFired > 0 {
		st.Add("fault.fired:disk", out.DiskFired)
	}
	if out.CancelFired {
		st.Count("fault.fired:cancel")
		if out.CancelBeforeReturn {
			st.Count("fault.fired:cancel-before-return")
		}
	}
}

// failLateEffects: a call that returned nil must be finished; writes, callbacks or
// mutating disk operations after the return mean the result was not complete at return.
func (c *Ctx) failLateEffects(id string, op Op, out *Outcome) {
	if out.LateEffects != "" {
		c.Failf(id+":effects-after-nil-return:"+op.Kind, "%s returned nil and afterwards its goroutines still performed %s", op, out.LateEffects)
	}
}
