package simharness

import (
	"errors"
	"fmt"
	"os"
	"path/filepath"
	"strings"
)

func init() {
	register(&Property{
		ID:    "C14",
		Level: "fault_enumeration",
		Rule: "one case = (well-formed document or tree, operation in any output mode, simple or massive). Simple mode: the fault-free run gives the document length L and the number of writes W; " +
			"the reader failure is injected after EVERY byte offset 0..L (with and without data in the failing call) and the writer failure at EVERY write index 0..W-1 (plain and torn) - exhaustive per case. " +
			"Massive mode: one drawn fault index per case under a seeded schedule of the real pipeline. Evaluations count single fault-injected executions. " +
			"non-trivial = the injected fault actually fired; distinct = different (document, operation, mode, fault kind, fault index, schedule) hash",
		Case:  caseC14,
		Real:  []string{"gtree + gtree/markdown (instrumented copy of /repo working tree): simple mode incl. iter.Pull coroutines, massive pipeline", "bufio.Scanner/Writer, encoding/json, yaml.v3, go-toml, fatih/color"},
		Stubs: []string{"io.Reader failing after byte k (wrapped sentinel, optionally data+error in one call, random chunking)", "io.Writer failing at write k (optionally torn), color.Output pointed at it", "goroutine scheduler (massive arm)", "filesystem shim over a tmpfs jail (mkdir/verify from Markdown)"},
	})
}

func genC14Op(c *Ctx, massive bool) Op {
	op := Op{Massive: massive}
	switch c.Pick(5, 2, 2, 2, 3, 2, 1, 1, 2) {
	case 0:
		op.Kind = "output"
		op.Branch = branchSets[c.Pick(4, 1, 1, 1, 1, 1, 1, 1, 1)]
		if op.Branch != nil && c.Chance(1, 5) {
			op.BranchOnly = []string{"last", "mid"}[c.Draw(2)]
		}
	case 1:
		op.Kind, op.Encode = "output", 1
	case 2:
		op.Kind, op.Encode = "output", 2
	case 3:
		op.Kind, op.Encode = "output", 3
	case 4:
		op.Kind, op.DryRun = "output", true
		op.Exts = extSets[c.Draw(len(extSets))]
	case 5:
		op.Kind = "walk"
	case 6:
		op.Kind = "mkdir"
	case 7:
		op.Kind = "verify"
	case 8:
		op.Kind, op.DryRun, op.FromRoot = "mkdir", true, true
		op.Exts = extSets[c.Draw(len(extSets))]
	}
	if op.Kind == "output" && c.Chance(1, 3) {
		op.FromRoot = true
	}
	if op.Kind == "output" && !op.FromRoot && !massive && c.Chance(1, 8) {
		op.NoIter = true
	}
	if c.Chance(1, 12) {
		op.Alias = true
	}
	return op
}

type c14fault struct {
	kind string // reader | reader+data | writer | writer-torn
	k    int
}

func (f c14fault) apply(env *Env) {
	switch f.kind {
	case "reader":
		env.Reader.FailAt = f.k
	case "reader+data":
		env.Reader.FailAt, env.Reader.WithData = f.k, true
	case "reader-once":
		env.Reader.FailAt, env.Reader.Once = f.k, true
	case "reader+data-once":
		env.Reader.FailAt, env.Reader.WithData, env.Reader.Once = f.k, true, true
	case "writer":
		env.Writer.FailAt = f.k
	case "writer-torn":
		env.Writer.FailAt, env.Writer.Torn = f.k, true
	case "writer-short":
		env.Writer.FailAt, env.Writer.Short = f.k, true
	case "writer-once":
		env.Writer.FailAt, env.Writer.Once = f.k, true
	case "writer-full":
		env.Writer.FailAt, env.Writer.Full = f.k, true
	case "writer+reader-silent":
		// the writer fails at write k while the input is a pipe whose other end has gone
		// silent: after the last byte Read does not report EOF, it never returns
		env.Writer.FailAt = f.k
		env.Reader.Stall, env.Reader.StallAt = true, len(env.Doc)
	}
	env.Writer.ErrVariant = f.k / 2
}

var c14kinds = []string{"reader", "reader+data", "reader-once", "writer", "writer-torn", "writer-short", "writer-once", "writer-full", "writer+reader-silent", "reader+data-once"}

func caseC14(c *Ctx) {
	massive := pickArm(c, []string{"simple", "massive"}, 5, 5) == "massive"
	op := genC14Op(c, massive)
	alpha := alphaFS
	if c.Chance(1, 2) {
		alpha = alphaPlain
	}
	fo := forestOpts{maxRoots: 3, maxExtra: 4, alpha: alpha, distinctRoots: true, maxDepth: 4, maxFan: 3}
	if op.FromRoot {
		fo.maxRoots = 1
	}
	forest := genForest(c, fo)
	big := c.Chance(1, 24)
	if big {
		// one root whose rows add up to well over 32 KiB (more than any buffer between the tree
		// and the writer): faults are drawn, not enumerated, for these
		forest = []*MNode{genBigRoot(c, alpha)}
		c.st.Count("big-root")
	}
	sp := genSpelling(c, false)
	doc, parts := spell(c, forest, sp)
	c.Scenario["op"] = op.String()
	c.Scenario["doc"] = string(doc)
	mode := "simple"
	if massive {
		mode = "massive"
	}
	c.st.Count("mode:" + mode)
	c.st.Count("op:" + op.String()[:strings.Index(op.String()+"/", "/")])

	var jails []string
	defer func() {
		for _, j := range jails {
			removeJail(j)
		}
	}()
	rp := readerPlanFor(c) // drawn once: the enumeration below must not consume the stream
	mkEnvSalt := uint64(0)
	wkind := c.Pick(5, 2, 2, 1) // plain | with Flush | with WriteString | io.Discard (reader faults only)
	discardFor := ""
	mkEnv := func() *Env {
		r := rp
		r.ChunkSeed = mix(rp.ChunkSeed, mkEnvSalt)
		e := &Env{Doc: doc, Reader: r, Writer: noWriterFault, Cb: noCbFault, FlushWriter: wkind == 1, StringWriter: wkind == 2, DiscardWriter: wkind == 3 && strings.HasPrefix(discardFor, "reader")}
		if op.FromRoot {
			e.Tree = forest[0]
		}
		if needsFS(op) {
			j := newJail()
			jails = append(jails, j)
			target := filepath.Join(j, "target")
			os.MkdirAll(target, 0o755)
			if op.Kind == "verify" {
				for _, r := range forest {
					for _, p := range r.Paths("") {
						os.MkdirAll(filepath.Join(target, p), 0o755)
					}
				}
			}
			e.Disk = &DiskPlan{Jail: j, Target: target, FailAt: -1}
		}
		return e
	}
	simple := op
	simple.Massive = false
	base := c.Direct(simple, mkEnv())
	if base.Err != nil || len(base.Panics) > 0 {
		c.Skip("fault-free simple run fails: " + errStr(base.Err))
	}
	malformed := false
	if massive && !op.FromRoot && c.Chance(1, 4) {
		// a second source of failure next to the injected one: some blocks are malformed; the
		// call must still fail (with any true error) when the reader or writer fails
		for i := 0; i < 1+c.Draw(2); i++ {
			malform(c, parts, sp.Unit)
		}
		doc = joinParts(parts)
		malformed = true
		c.Scenario["doc"] = string(doc)
		c.st.Count("massive-with-malformed-blocks")
	}
	L, W := len(doc), len(base.Segs)
	var trees []*MNode
	if op.FromRoot {
		trees = forest
	}

	judge := func(f c14fault, out *Outcome, sched uint64) {
		c.st.Count("evaluations")
		if f.kind == "writer+reader-silent" && !out.WriterFired {
			// the call needed the end of the input before it got to write k: with an input that
			// never ends there is nothing to judge
			c.st.Count("silent-reader:write-not-reached")
			return
		}
		fired := out.ReaderFired || out.WriterFired
		if fired {
			c.st.Distinct("nontrivial", mix(hashStr(string(doc)+op.String()+f.kind+fmt.Sprint(f.k)), sched))
		}
		fail := func(sig, format string, a ...any) {
			c.SetParam("kind", indexOf(c14kinds, f.kind))
			c.SetParam("k", f.k)
			c.Scenario["fault"] = fmt.Sprintf("%s at %d", f.kind, f.k)
			c.Failf(sig, format, a...)
		}
		opk := op.String()
		if len(out.Panics) > 0 {
			// the property demands a returned error: a crash under an injected failure is not one
			fail("C14:panic-under-"+strings.SplitN(f.kind, "-", 2)[0]+"-failure:"+mode+":"+out.Panics[0].Site, "%s with %s at %d panicked in task %s: %s", opk, f.kind, f.k, out.Panics[0].Task, out.Panics[0].Value)
		}
		if out.Hang || out.StepCap {
			fail("C14:no-return-under-"+strings.SplitN(f.kind, "-", 2)[0]+"-failure:"+mode+":"+leakOrCallerSite(out), "%s with %s at %d never returned\n%s", opk, f.kind, f.k, hangDetail(out))
		}
		if strings.HasPrefix(f.kind, "reader") && !out.ReaderFired && out.Err == nil && !malformed {
			fail("C14:input-not-read:"+mode+":"+op.Kind, "%s returned nil without ever reading as far as byte %d of %d, where the reader would have failed (the input was not consumed)", opk, f.k, L)
		}
		if out.ReaderFired {
			if out.Err == nil {
				fail("C14:reader-error-swallowed:"+mode+":"+op.Kind, "%s: the reader failed after byte %d of %d and the call returned nil", opk, f.k, L)
			}
			if !errors.Is(out.Err, out.ReaderErr) && !malformed {
				torn := f.k < L && f.k > 0 && doc[f.k-1] != '\n'
				cls := "other"
				if torn {
					cls = "mid-line"
				}
				fail("C14:reader-error-replaced:"+mode+":"+cls, "%s: the reader failed after byte %d of %d (%q|%q); the call returned %q, which is not the reader's error", opk, f.k, L, tail(doc[:f.k], 12), head(doc[f.k:], 12), out.Err)
			}
		}
		if out.WriterFired && out.Err == nil && f.kind == "writer-short" && string(out.Out) == string(base.Out) && !malformed {
			// the short write reported no error and the caller (bufio on a write larger than its
			// buffer) offered the remaining bytes again: every byte was accepted, nil is right
			c.st.Count("short-write-completed-by-retry")
		} else if out.WriterFired && out.Err == nil {
			what := "writer-error-swallowed"
			if f.kind == "writer-full" {
				what = "writer-error-with-full-count-swallowed"
			}
			if f.kind == "writer-short" {
				what = "short-write-swallowed"
			}
			fail("C14:"+what+":"+mode+":"+opSig(op), "%s: the writer refused %d bytes at write #%d (%s) and the call returned nil", opk, out.WriterRefused, f.k, f.kind)
		}
		if out.Err == nil && !malformed && !(wkind == 3 && strings.HasPrefix(f.kind, "reader")) {
			// nil => every byte of the output was accepted
			ref := base
			if cl, why := sameResult(c, op, parts, trees, ref, out, "", ""); cl != "" && (op.Kind == "output" || (op.Kind == "mkdir" && op.DryRun && op.FromRoot)) {
				fail("C14:nil-but-output-incomplete:"+mode+":"+opSig(op), "%s: the call returned nil but the writer did not receive the complete output (%s)\n%s", opk, cl, why)
			}
		}
	}

	if !massive {
		// exhaustive enumeration of every fault index (or the one fixed by a replay record)
		var faults []c14fault
		if kv, ok := c.Param("kind"); ok {
			k, _ := c.Param("k")
			faults = []c14fault{{c14kinds[kv%len(c14kinds)], k}}
		} else if big {
			// drawn fault indices (the enumeration would cost L+W runs of a big document)
			h := hashStr(string(doc) + op.String())
			for i := uint64(0); i < 24; i++ {
				if W > 0 {
					kind := []string{"writer", "writer-torn", "writer-short", "writer-once", "writer-once", "writer-full"}[mix(h, 3*i)%6]
					faults = append(faults, c14fault{kind, int(mix(h, 3*i+1) % uint64(W))})
				}
				if !op.FromRoot && i%3 == 0 {
					kind := []string{"reader", "reader+data", "reader-once", "reader+data-once"}[mix(h, 3*i+2)%4]
					faults = append(faults, c14fault{kind, int(mix(h, 3*i+1) % uint64(L+1))})
				}
			}
		} else {
			if !op.FromRoot {
				for k := 0; k <= L; k++ {
					faults = append(faults, c14fault{"reader", k}, c14fault{"reader+data", k}, c14fault{"reader-once", k}, c14fault{"reader+data-once", k})
				}
			}
			for j := 0; j < W; j++ {
				faults = append(faults, c14fault{"writer", j}, c14fault{"writer-torn", j}, c14fault{"writer-short", j}, c14fault{"writer-once", j}, c14fault{"writer-full", j})
			}
			if !op.FromRoot && W > 0 {
				faults = append(faults, c14fault{"writer+reader-silent", 0})
				if j := int(mix(hashStr(string(doc)), 7) % uint64(W)); j > 0 {
					faults = append(faults, c14fault{"writer+reader-silent", j})
				}
			}
		}
		if big {
			c.st.Add("big-root.drawn-faults", len(faults))
		} else {
			c.st.Add("enumerated.reader-offsets", L+1)
			c.st.Add("enumerated.write-indices", W)
		}
		for _, f := range faults {
			mkEnvSalt = hashStr(f.kind) + uint64(f.k)
			discardFor = f.kind
			env := mkEnv()
			f.apply(env)
			var out *Outcome
			if f.kind == "writer+reader-silent" {
				env.MaxSteps = 40000 + 4*len(doc)
				out = c.Sim("silent", simple, env) // (a goroutine parked for ever needs the scheduler)
			} else {
				out = c.Direct(simple, env)
			}
			judge(f, out, 0)
		}
		c.st.Sample("simple/"+op.Kind, map[string]any{"mode": "simple", "op": op.String(), "doc": string(doc), "reader_offsets_enumerated": L + 1, "write_indices_enumerated": W})
		return
	}
	// massive: one fault per case under a seeded schedule
	var f c14fault
	kinds := []string{"writer", "writer-torn", "writer-short", "writer-once", "writer-once", "writer-full"}
	if !op.FromRoot {
		kinds = c14kinds
	}
	if W == 0 {
		kinds = []string{"reader", "reader+data"}
		if op.FromRoot {
			c.Skip("no reader and no writer in this operation")
		}
	}
	f.kind = kinds[c.Draw(len(kinds))]
	if strings.HasPrefix(f.kind, "reader") {
		f.k = c.Draw(L + 1)
	} else {
		f.k = c.Draw(W)
	}
	c.Scenario["fault"] = fmt.Sprintf("%s at %d", f.kind, f.k)
	if c.Chance(1, 3) {
		// the same call failed before in this process (another fault index): what it left in
		// package-level state must not change how the next failure is reported
		f0 := f
		if strings.HasPrefix(f.kind, "reader") {
			f0.k = c.Draw(L + 1)
		} else {
			f0.k = c.Draw(W)
		}
		c.Scenario["earlier_failing_call"] = fmt.Sprintf("%s at %d", f0.kind, f0.k)
		c.st.Count("massive.with-earlier-failing-call")
		discardFor = f0.kind
		env0 := mkEnv()
		f0.apply(env0)
		env0.MaxSteps = 40000 + 4*len(doc)
		c.Sim("earlier", op, env0)
	}
	discardFor = f.kind
	env := mkEnv()
	f.apply(env)
	env.MaxSteps = 40000 + 4*len(doc)
	out := c.Sim("main", op, env)
	judge(f, out, out.TraceHash)
	c.st.Sample("massive/"+f.kind, map[string]any{"mode": "massive", "op": op.String(), "doc": string(doc), "fault": c.Scenario["fault"], "result": errStr(out.Err), "steps": out.Steps})
}

// genBigRoot: a two-level root with long names whose text output is 40-120 KiB.
func genBigRoot(c *Ctx, alpha int) *MNode {
	root := &MNode{Name: genName(c, alpha)}
	pad := strings.Repeat("x", 20+c.Draw(30))
	n, m := 20+c.Draw(20), 20+c.Draw(20)
	for i := 0; i < n; i++ {
		k := &MNode{Name: fmt.Sprintf("%s%s%d", genName(c, alpha), pad, i)}
		for j := 0; j < m; j++ {
			k.Kids = append(k.Kids, &MNode{Name: fmt.Sprintf("%s%d_%d", pad, i, j)})
		}
		root.Kids = append(root.Kids, k)
	}
	return root
}

func opSig(op Op) string {
	s := op.Kind
	if op.FromRoot {
		s += "/root"
	} else {
		s += "/md"
	}
	if op.DryRun {
		s += "/dry"
	} else {
		s += []string{"/text", "/json", "/yaml", "/toml"}[op.Encode]
	}
	if op.NoIter {
		s += "/noiter"
	}
	return s
}

func indexOf(l []string, s string) int {
	for i, x := range l {
		if x == s {
			return i
		}
	}
	return 0
}

func tail(b []byte, n int) string {
	if len(b) > n {
		b = b[len(b)-n:]
	}
	return string(b)
}

func head(b []byte, n int) string {
	if len(b) > n {
		b = b[:n]
	}
	return string(b)
}
