package simharness

import (
	"fmt"
	"sort"

	"github.com/ddddddO/gtree/simrt"
)

// ---- PRNG ---------------------------------------------------------------------------

type Rng struct{ x uint64 }

func (r *Rng) Next() uint64 {
	r.x += 0x9e3779b97f4a7c15
	z := r.x
	z = (z ^ (z >> 30)) * 0xbf58476d1ce4e5b9
	z = (z ^ (z >> 27)) * 0x94d049bb133111eb
	return z ^ (z >> 31)
}

func (r *Rng) Intn(n int) int {
	if n <= 1 {
		return 0
	}
	return int(r.Next() % uint64(n))
}

func mix(a, b uint64) uint64 {
	r := Rng{x: a ^ (b * 0x9e3779b97f4a7c15)}
	r.Next()
	return r.Next()
}

// ---- Record: everything a case is a function of ----------------------------------------

// Record is the replayable description of one case. A case is a pure function of
// (Gen, Params, Sched) and the code under test.
type Record struct {
	Prop   string           `json:"property"`
	Seed   uint64           `json:"seed"`
	Index  int              `json:"index"`
	Gen    []int            `json:"gen"`
	Params map[string]int   `json:"params,omitempty"`
	Sched  map[string][]int `json:"sched,omitempty"`
	// FromSeed: regenerate the case from (Seed, Index) instead of replaying streams
	FromSeed bool `json:"from_seed,omitempty"`
	// Exhaustive: the failing point of the exhaustively enumerated space, named by Params
	Exhaustive bool `json:"exhaustive,omitempty"`
	// GoMaxProcs of the worker that found the case (the simulation does not depend on it, code
	// that reads runtime.GOMAXPROCS would); the driver replays under the same value
	GoMaxProcs int `json:"gomaxprocs,omitempty"`

	// filled in on failure
	Sig      string         `json:"signature,omitempty"`
	Detail   string         `json:"detail,omitempty"`
	Scenario map[string]any `json:"scenario,omitempty"`
	Trace    []simrt.Step   `json:"trace,omitempty"`
}

// ---- Ctx: the choice stream of one case -------------------------------------------------

type failure struct {
	sig    string
	detail string
}

type caseAbort struct{}

type Ctx struct {
	Prop   string
	Seed   uint64
	replay bool
	gen    []int
	pos    int
	rng    *Rng
	srng   *Rng // strategy PRNG (generate mode)

	ParamsIn  map[string]int
	ParamsOut map[string]int
	SchedIn   map[string][]int
	SchedOut  map[string][]int

	Scenario map[string]any
	fail     *failure
	st       *Stats
	lastRun  *simrt.Run
	keepTrace bool
	lastTrace []simrt.Step
	schedPtrs []schedPtr
	execN     int // library calls made by this case so far (seeds the map order of each)
}

func newGenCtx(prop string, seed uint64, st *Stats) *Ctx {
	return &Ctx{Prop: prop, Seed: seed, rng: &Rng{x: seed}, srng: &Rng{x: mix(seed, 0x5ced)},
		ParamsOut: map[string]int{}, SchedOut: map[string][]int{}, Scenario: map[string]any{}, st: st}
}

func newReplayCtx(rec *Record, st *Stats) *Ctx {
	return &Ctx{Prop: rec.Prop, Seed: rec.Seed, replay: true, gen: rec.Gen, ParamsIn: rec.Params, SchedIn: rec.Sched,
		srng:      &Rng{x: mix(rec.Seed, 0x5ced)},
		ParamsOut: map[string]int{}, SchedOut: map[string][]int{}, Scenario: map[string]any{}, st: st}
}

// Draw returns a value in [0,n). 0 is the simplest choice by convention.
func (c *Ctx) Draw(n int) int {
	if n <= 1 {
		if !c.replay {
			c.gen = append(c.gen, 0)
		} else {
			c.pos++
		}
		return 0
	}
	if c.replay {
		v := 0
		if c.pos < len(c.gen) {
			v = c.gen[c.pos]
		}
		c.pos++
		if v < 0 {
			v = 0
		}
		return v % n
	}
	v := c.rng.Intn(n)
	c.gen = append(c.gen, v)
	return v
}

// Chance is true with probability num/den; false is the simple choice.
func (c *Ctx) Chance(num, den int) bool {
	return c.Draw(den) >= den-num
}

// Pick returns an index chosen with the given weights; index 0 is the simple choice.
func (c *Ctx) Pick(weights ...int) int {
	total := 0
	for _, w := range weights {
		total += w
	}
	v := c.Draw(total)
	for i, w := range weights {
		if v < w {
			return i
		}
		v -= w
	}
	return 0
}

// Param returns a named parameter. When replaying a record that fixes it, the fixed value
// is returned and ok is true; otherwise ok is false and the caller enumerates.
func (c *Ctx) Param(name string) (int, bool) {
	if c.ParamsIn != nil {
		if v, ok := c.ParamsIn[name]; ok {
			return v, true
		}
	}
	return 0, false
}

func (c *Ctx) SetParam(name string, v int) { c.ParamsOut[name] = v }

// Failf records a violation and aborts the case.
func (c *Ctx) Failf(sig string, format string, a ...any) {
	c.fail = &failure{sig: sig, detail: fmt.Sprintf(format, a...)}
	panic(caseAbort{})
}

// Skip aborts the case without a verdict (counted).
func (c *Ctx) Skip(why string) {
	c.st.Count("skip:" + why)
	panic(caseAbort{})
}

// ---- choosers -----------------------------------------------------------------------------

// recChooser wraps a strategy and records every decision it makes.
type recChooser struct {
	inner func(r *simrt.Run, cands []*simrt.Task, cont bool) (int, uint32)
	out   *[]int
}

func (rc *recChooser) Choose(r *simrt.Run, cands []*simrt.Task) (int, uint32) {
	idx, sel := rc.inner(r, cands, r.ContinuePossible)
	if idx < 0 || idx >= len(cands) {
		idx = 0
	}
	*rc.out = append(*rc.out, idx, int(sel))
	return idx, sel
}

// replayChooser replays a recorded decision list; beyond its end it falls back.
type replayChooser struct {
	in       []int
	pos      int
	fallback func(r *simrt.Run, cands []*simrt.Task, cont bool) (int, uint32)
	out      *[]int
}

func (rc *replayChooser) Choose(r *simrt.Run, cands []*simrt.Task) (int, uint32) {
	var idx int
	var sel uint32
	if rc.pos+1 < len(rc.in) {
		idx, sel = rc.in[rc.pos], uint32(rc.in[rc.pos+1])
		rc.pos += 2
		if idx < 0 {
			idx = 0
		}
		idx %= len(cands)
	} else if rc.fallback != nil {
		idx, sel = rc.fallback(r, cands, r.ContinuePossible)
	}
	if rc.out != nil {
		*rc.out = append(*rc.out, idx, int(sel))
	}
	return idx, sel
}

// Strategy names, drawn per run (swarm style).
const (
	stratUniform = iota
	stratRunLong
	stratPCT
	stratStarve
	stratStarvePCT
	stratFirst // deterministic: always continue / lowest id (the "zero" schedule)
	nStrats
)

var stratNames = []string{"uniform", "runlong", "pct", "starve", "starve+runlong", "first"}

type strategy struct {
	kind    int
	rng     *Rng
	prio    map[string]int
	nextLow int
	changes map[int]bool
	starved map[string]bool // scheduling classes only run when nothing else can
	starveSalt uint64       // a class is starved iff hash(class, salt) % starveMod == 0 (no dependence on process history)
	starveMod  uint64
	preempt int             // runlong: 1/preempt chance to switch
}

func newStrategy(kind int, rng *Rng, classes []string) *strategy {
	s := &strategy{kind: kind, rng: rng, prio: map[string]int{}, changes: map[int]bool{}, starved: map[string]bool{}, preempt: 2 + rng.Intn(12)}
	if kind == stratPCT {
		d := 1 + rng.Intn(4)
		for i := 0; i < d; i++ {
			s.changes[rng.Intn(400)] = true
		}
	}
	if kind == stratStarve || kind == stratStarvePCT {
		// starve a pseudo-random subset of spawn-site classes (about 1 in 3..8)
		s.starveSalt = rng.Next() | 1
		s.starveMod = uint64(3 + rng.Intn(6))
	}
	return s
}

func (s *strategy) choose(r *simrt.Run, cands []*simrt.Task, cont bool) (int, uint32) {
	sel := uint32(s.rng.Next())
	if sel == 0 {
		sel = 1
	}
	pool := make([]int, 0, len(cands))
	if s.starveSalt != 0 {
		for i, t := range cands {
			if mix(hashStr(t.Class), s.starveSalt)%s.starveMod != 0 {
				pool = append(pool, i)
			}
		}
		if len(pool) == 0 {
			r.CountProbe("sched.starved-class-ran")
		}
	}
	if len(pool) == 0 {
		for i := range cands {
			pool = append(pool, i)
		}
	}
	switch s.kind {
	case stratFirst:
		return pool[0], 0
	case stratRunLong, stratStarvePCT:
		if cont && pool[0] == 0 && s.rng.Intn(s.preempt) != 0 {
			return 0, sel
		}
		return pool[s.rng.Intn(len(pool))], sel
	case stratPCT:
		if s.changes[r.Steps] {
			// demote the currently highest-priority candidate
			best := s.best(cands, pool)
			s.nextLow--
			s.prio[cands[best].ID] = s.nextLow
		}
		return s.best(cands, pool), sel
	default:
		return pool[s.rng.Intn(len(pool))], sel
	}
}

func (s *strategy) best(cands []*simrt.Task, pool []int) int {
	best, bp := pool[0], -1<<62
	for _, i := range pool {
		p, ok := s.prio[cands[i].ID]
		if !ok {
			p = 1 + s.rng.Intn(1<<20)
			s.prio[cands[i].ID] = p
		}
		if p > bp {
			best, bp = i, p
		}
	}
	return best
}

// schedClasses are the spawn-site classes of the massive pipeline that a starvation
// strategy may pick from; computed lazily from observed runs.
var schedClasses = map[string]bool{}

func knownClasses() []string {
	out := make([]string, 0, len(schedClasses))
	for k := range schedClasses {
		out = append(out, k)
	}
	sort.Strings(out)
	return out
}

// Chooser returns the chooser for the named simulated run of this case: in generate mode
// a freshly drawn strategy (recorded), in replay mode the recorded decisions.
func (c *Ctx) Chooser(name string, forceStrat int) simrt.Chooser {
	out := []int{}
	c.SchedOut[name] = out
	outp := new([]int)
	*outp = out
	c.schedPtrs = append(c.schedPtrs, schedPtr{name, outp})
	if c.replay {
		if in, ok := c.SchedIn[name]; ok {
			return &replayChooser{in: in, out: outp}
		}
		return &replayChooser{in: nil, out: outp}
	}
	kind := forceStrat
	if kind < 0 {
		kind = []int{stratUniform, stratUniform, stratRunLong, stratRunLong, stratPCT, stratStarve, stratStarvePCT}[c.srng.Intn(7)]
	}
	s := newStrategy(kind, &Rng{x: c.srng.Next()}, knownClasses())
	c.st.Count("strategy:" + stratNames[kind])
	return &recChooser{inner: s.choose, out: outp}
}

// ChooserFrom replays base decisions and continues with a seeded uniform strategy.
func (c *Ctx) ChooserFrom(name string, base []int, salt uint64) simrt.Chooser {
	outp := new([]int)
	c.schedPtrs = append(c.schedPtrs, schedPtr{name, outp})
	if c.replay {
		if in, ok := c.SchedIn[name]; ok {
			return &replayChooser{in: in, out: outp}
		}
		return &replayChooser{in: nil, out: outp}
	}
	s := newStrategy(stratUniform, &Rng{x: mix(c.Seed, salt)}, nil)
	return &replayChooser{in: base, fallback: s.choose, out: outp}
}

type schedPtr struct {
	name string
	p    *[]int
}

func (c *Ctx) flushSched() {
	for _, sp := range c.schedPtrs {
		c.SchedOut[sp.name] = *sp.p
	}
}

// dropSched forgets the recorded decisions of a finished, passing run of this case.
func (c *Ctx) dropSched(name string) {
	delete(c.SchedOut, name)
	for i, sp := range c.schedPtrs {
		if sp.name == name {
			c.schedPtrs = append(c.schedPtrs[:i], c.schedPtrs[i+1:]...)
			break
		}
	}
}
