package simharness

import (
	"bytes"
	"context"
	"errors"
	"fmt"
	"os"
	"path"
	"path/filepath"
	"strings"
	"syscall"
)

var branchSets = [][]string{
	nil,
	{"+--", "   ", "|--", "|  "},
	{"", "", "", ""},
	{"└─", "  ", "├─", "│ "},
	{"`", ".", "+", ":"},
	{"L", "", "M", "|||"},
	{"└", "·", "├", "│──"},
	{"", "L", "M", "|||"}, // the strings of set 5 cut differently: the same text when concatenated
	{"L", "M", "", "|||"},
}

var extSets = [][]string{nil, {".go"}, {".txt", ".md"}, {"Makefile"}, {"go", ".go"}, {""}, {".tar.gz", ".gz"}, {"Makefile", "file"}, {".GO", ".go", ".txt"}, {".go", ".txt", ".go"}, {"[1].txt", ".c?"}, {"*", ".cc"}}

// genOp draws an operation. fsOK: allow operations with filesystem effects.
func genOp(c *Ctx, massive bool) Op {
	op := Op{Massive: massive}
	switch c.Pick(5, 2, 2, 1, 2, 3, 3, 2, 1) {
	case 0:
		op.Kind = "output"
		op.Branch = branchSets[c.Pick(4, 1, 1, 1, 1, 1, 1, 1, 1)]
		if op.Branch != nil && c.Chance(1, 5) {
			op.BranchOnly = []string{"last", "mid"}[c.Draw(2)]
		}
	case 1:
		op.Kind, op.Encode = "output", 1
	case 2:
		op.Kind, op.Encode = "output", 2
	case 3:
		op.Kind, op.Encode = "output", 3
	case 4:
		op.Kind, op.DryRun = "output", true
		op.Exts = extSets[c.Draw(len(extSets))]
		if c.Chance(1, 4) {
			op.Encode = 1 + c.Draw(3) // both options at once: accepted, and defined by simple mode
		}
	case 5:
		op.Kind = "walk"
		op.Branch = branchSets[c.Pick(4, 1, 1, 1, 1, 1, 1, 1, 1)]
		if op.Branch != nil && c.Chance(1, 5) {
			op.BranchOnly = []string{"last", "mid"}[c.Draw(2)]
		}
		if c.Chance(1, 6) {
			op.DryRun = true // accepted by the walks: names are validated before the first callback
		}
	case 6:
		op.Kind = "mkdir"
		op.Exts = extSets[c.Draw(len(extSets))]
	case 7:
		op.Kind = "verify"
		op.Strict = c.Draw(2) == 1
	case 8:
		op.Kind, op.DryRun = "mkdir", true
		op.Exts = extSets[c.Draw(len(extSets))]
	}
	if c.Chance(1, 10) {
		op.Alias = true
	}
	if c.Chance(1, 12) {
		op.NilOption = true
	}
	if !massive && op.Kind == "output" && c.Chance(1, 6) {
		op.NoIter = true
	}
	if c.Chance(1, 10) {
		op.Decoys = true
	}
	if c.Chance(1, 10) {
		op.Stray = true
	}
	return op
}

// needsFS: operations that get a jail and a target directory. Note that
// MkdirFromMarkdown ignores WithDryRun on the pinned tree (it creates the directories;
// that is C09's business, not decided here), so only the from-root dry run is fs-free.
func needsFS(op Op) bool {
	return (op.Kind == "mkdir" && !(op.DryRun && op.FromRoot)) || op.Kind == "verify"
}

// validatesNames: operations that reject names that are not single path elements.
func validatesNames(op Op) bool {
	return op.DryRun || op.Kind == "verify" || (op.Kind == "mkdir" && op.FromRoot)
}

// massiveScenario is the common workload of C10/C11/C12-massive: a document (or a tree),
// an operation and, for filesystem operations, the state of the target directory.
type massiveScenario struct {
	arm     string
	forest  []*MNode
	sp      Spelling
	doc     []byte
	parts   [][]byte
	malform []string
	op      Op
	preexist []string // root names created in the target before the call
	preKind  []string
	verifyState string
	manyRoots bool
	invalidName bool
	bigRoots bool
	missingTarget bool
	targetName    string
}

func (s *massiveScenario) describe(c *Ctx) {
	c.Scenario["arm"] = s.arm
	c.Scenario["op"] = s.op.String()
	c.Scenario["doc"] = string(s.doc)
	c.Scenario["forest"] = forestString(s.forest)
	if len(s.malform) > 0 {
		c.Scenario["malformed"] = s.malform
	}
	if len(s.preexist) > 0 {
		c.Scenario["preexisting"] = s.preexist
	}
}

// classify names the input classes a document belongs to (used in signatures so that a
// known finding can be as narrow as its input class).
func (s *massiveScenario) classes() []string {
	var cl []string
	if s.sp.SharpRoots {
		cl = append(cl, "sharp-roots")
	}
	if s.sp.LeadBlank > 0 {
		cl = append(cl, "leading-blank")
	}
	if len(s.sp.UnitPerRoot) > 0 || differingFirstIndents(s.doc) || mixedSeparators(s.doc) {
		// the first indented line is not indented alike under every root: the unit the
		// (shared) parser learns depends on which block it sees first
		cl = append(cl, "mixed-units")
	}
	if len(s.malform) > 0 {
		cl = append(cl, "malformed")
	}
	if len(s.preexist) > 0 {
		cl = append(cl, "preexisting-root")
	}
	if s.op.Kind == "mkdir" && overlappingRoots(s.forest) {
		// one root's directory lies inside (or is) another root's: massive mode checks each
		// root's existence only when it gets to it (known finding)
		cl = append(cl, "overlapping-roots")
	}
	if len(cl) == 0 {
		return []string{"core"}
	}
	return cl
}

// overlappingRoots: what one root creates is, or contains, the directory of another root -
// a root named "." (the target directory itself) next to other roots, two roots with the
// same path, a root written as a path below another root, or a node whose cleaned path
// leaves its own root (a node named "..") and lands on another root.
func overlappingRoots(forest []*MNode) bool {
	if len(forest) < 2 {
		return false
	}
	roots := make([]string, len(forest))
	created := make([][]string, len(forest))
	for i, r := range forest {
		roots[i] = path.Clean(r.Name)
		for _, p := range r.Paths("") {
			created[i] = append(created[i], path.Clean(p))
		}
	}
	for j, pj := range roots {
		if pj == "." {
			return true
		}
		for i := range forest {
			if i == j {
				continue
			}
			for _, q := range created[i] {
				if q == pj || strings.HasPrefix(q, pj+"/") {
					return true
				}
			}
		}
	}
	return false
}

func genMassiveScenario(c *Ctx, arm string, nMalformMax int) *massiveScenario {
	s := &massiveScenario{arm: arm}
	s.op = genOp(c, true)
	alpha := alphaHostile
	if needsFS(s.op) || validatesNames(s.op) || s.op.Kind == "walk" {
		alpha = alphaFS
	}
	if c.Chance(1, 2) {
		alpha = alphaPlain
	}
	fromRoot := c.Chance(1, 8) && arm == "core"
	fo := forestOpts{maxRoots: 6, maxExtra: 7, alpha: alpha, distinctRoots: needsFS(s.op) || c.Chance(2, 3), maxDepth: 5, maxFan: 4, shapes: true}
	if fromRoot {
		fo.maxRoots = 1
		s.op.FromRoot = true
	}
	if !fromRoot && (arm == "stress" || c.Chance(1, 7)) {
		// more root blocks than workers per stage (10): some worker handles several blocks
		fo.maxRoots, fo.maxExtra = 26, 3
		s.manyRoots = true
	}
	s.forest = genForest(c, fo)
	if s.manyRoots && len(s.forest) < 11 {
		for len(s.forest) < 11 {
			n := genName(c, alpha)
			if fo.distinctRoots {
				n = fmt.Sprintf("%s%d", n, len(s.forest))
			}
			s.forest = append(s.forest, genTree(c, n, fo))
		}
	}
	if validatesNames(s.op) && !fromRoot && c.Chance(1, 10) {
		// a name that is not a single path element (also as the only line of a block): both
		// modes must reject it alike
		bad := []string{"a/b", "..", "x/", "p/q/r", "."}[c.Draw(5)]
		r := s.forest[c.Draw(len(s.forest))]
		if len(r.Kids) == 0 || c.Draw(2) == 0 {
			r.Name = bad
		} else {
			r.Kids[c.Draw(len(r.Kids))].Name = bad
		}
		s.invalidName = true
	}
	if !needsFS(s.op) && !validatesNames(s.op) && !s.manyRoots && c.Chance(1, 12) {
		// roots that print more than 4 KiB each
		var pad func(n *MNode)
		pad = func(n *MNode) {
			n.Name += "-" + strings.Repeat("w", 600)
			for _, k := range n.Kids {
				pad(k)
			}
		}
		for _, r := range s.forest {
			pad(r)
			for len(r.Kids) < 7 {
				r.Kids = append(r.Kids, &MNode{Name: fmt.Sprintf("fill%d-%s", len(r.Kids), strings.Repeat("f", 600))})
			}
		}
		s.bigRoots = true
	}
	s.sp = genSpelling(c, arm == "extended")
	s.doc, s.parts = spell(c, s.forest, s.sp)
	if arm == "stress" {
		// more blocks than workers, and level jumps (which simple mode accepts, dropping the
		// lines) below the first indented line of late blocks: per-block state must not leak
		// from one block to the next one a worker handles
		for i := 0; i < 1+c.Draw(3); i++ {
			pi := len(s.parts)/2 + c.Draw(len(s.parts)-len(s.parts)/2)
			lines := strings.Split(strings.TrimRight(string(s.parts[pi]), "\n"), "\n")
			if len(lines) < 3 {
				lines = append(lines, s.sp.Unit+"- k1", s.sp.Unit+"- k2")
			}
			li := 2 + c.Draw(len(lines)-2)
			lines[li] = s.sp.Unit + s.sp.Unit + lines[li]
			s.parts[pi] = []byte(strings.Join(lines, "\n") + "\n")
			s.malform = append(s.malform, fmt.Sprintf("leveljump(late)@root%d", pi))
		}
		s.doc = joinParts(s.parts)
	}
	if arm == "malformed" {
		if s.manyRoots && c.Chance(1, 2) {
			nMalformMax = len(s.parts) // more failing blocks than a stage has workers
		}
		n := 1 + c.Draw(nMalformMax)
		for i := 0; i < n; i++ {
			k, pi := malform(c, s.parts, s.sp.Unit)
			s.malform = append(s.malform, fmt.Sprintf("%s@root%d", k, pi))
		}
		s.doc = joinParts(s.parts)
	}
	if s.op.Kind == "mkdir" && needsFS(s.op) && arm == "extended" && c.Chance(1, 2) {
		for _, r := range s.forest {
			if c.Chance(1, 3) {
				s.preexist = append(s.preexist, r.Name)
				s.preKind = append(s.preKind, []string{"d", "f"}[c.Draw(2)])
			}
		}
	}
	if s.op.Kind == "verify" {
		s.verifyState = []string{"exact", "missing-some", "extra-some", "empty"}[c.Pick(3, 2, 2, 1)]
	}
	if s.op.Kind == "mkdir" && c.Chance(1, 4) {
		s.missingTarget = true
	}
	if needsFS(s.op) {
		s.targetName = genTargetDirName(c)
	}
	return s
}

// prepareTarget creates the jail and the target-directory state for an fs operation.
func (s *massiveScenario) prepareTarget(c *Ctx, salt int) *DiskPlan {
	if !needsFS(s.op) {
		return nil
	}
	j := newJail()
	tn := s.targetName
	if tn == "" {
		tn = "target"
	}
	target := filepath.Join(j, tn)
	if s.op.Kind == "mkdir" && len(s.preexist) == 0 && s.missingTarget {
		target = filepath.Join(j, "not", "yet", "there") // created by the call itself
	} else {
		os.MkdirAll(target, 0o755)
	}
	for i, n := range s.preexist {
		p := filepath.Join(target, n)
		if s.preKind[i] == "d" {
			os.MkdirAll(p, 0o755)
		} else {
			os.WriteFile(p, nil, 0o644)
		}
	}
	if s.op.Kind == "verify" {
		// build the directory state from the model deterministically (hash of path decides)
		for _, r := range s.forest {
			for _, p := range r.Paths("") {
				h := hashStr(p)
				switch s.verifyState {
				case "exact":
					os.MkdirAll(filepath.Join(target, p), 0o755)
				case "missing-some":
					if h%4 != 0 {
						os.MkdirAll(filepath.Join(target, p), 0o755)
					}
				case "extra-some":
					os.MkdirAll(filepath.Join(target, p), 0o755)
					if h%3 == 0 {
						os.MkdirAll(filepath.Join(target, p, "zz-extra"), 0o755)
					}
				}
			}
		}
	}
	return &DiskPlan{Jail: j, Target: target, FailAt: -1}
}

func targetSnap(d *DiskPlan) string {
	if d == nil {
		return ""
	}
	return snapStringFull(snapshot(d.Target)) // kinds, sizes, permission bits and contents
}

func dropJail(d *DiskPlan) {
	if d != nil {
		removeJail(d.Jail)
	}
}

func readerPlanFor(c *Ctx) ReaderPlan {
	rp := noReaderFault
	switch c.Pick(3, 2, 2, 1) {
	case 1:
		rp.MaxChunk = 1 + c.Draw(16)
	case 2:
		rp.MaxChunk = 1
	case 3:
		rp.MaxChunk = 64
		rp.ZeroReads = true
	}
	rp.ChunkSeed = uint64(c.Draw(1 << 16))
	rp.WithLen = rp.ChunkSeed%4 == 0
	rp.Seekable = rp.ChunkSeed%8 == 1
	rp.WithClose = rp.ChunkSeed%8 == 2
	rp.WriterTo = rp.ChunkSeed%8 == 3
	return rp
}

func firstPanicSig(out *Outcome) string {
	if len(out.Panics) == 0 {
		return ""
	}
	return out.Panics[0].Site
}

// ---- C10 -------------------------------------------------------------------------------------------

func init() {
	register(&Property{
		ID:    "C10",
		Level: "exploration",
		Rule: "one case = (document or tree, operation, reader chunking, seeded schedule of the real massive pipeline); " +
			"non-trivial = at least 2 roots and at least one scheduler step with a real choice; distinct = different (document, operation, full schedule) hash",
		Case:  caseC10,
		Real:  []string{"gtree + gtree/markdown (instrumented copy of /repo working tree)", "channels, select (seeded), WaitGroup, context, errgroup, bufio, encoders"},
		Stubs: []string{"goroutine scheduler", "io.Reader (chunking/yield)", "io.Writer (yield, records writer task)", "walk callback", "filesystem shim over a tmpfs jail"},
	})
}

func pickArm(c *Ctx, names []string, weights ...int) string {
	i := c.Pick(weights...)
	if *fArm != "" {
		return *fArm
	}
	return names[i]
}

func caseC10(c *Ctx) {
	arm := pickArm(c, []string{"core", "extended", "malformed", "stress"}, 6, 2, 2, 1)
	s := genMassiveScenario(c, arm, 2)
	s.describe(c)
	c.st.Count("arm:" + arm)
	c.st.Count("op:" + s.op.Kind)

	simple := s.op
	simple.Massive = false
	var trees []*MNode
	if s.op.FromRoot {
		trees = s.forest
	}
	rplan := noReaderFault
	rplan.WithLen = c.Chance(1, 4)
	mk := func(d *DiskPlan) *Env {
		e := &Env{Doc: s.doc, Reader: rplan, Writer: noWriterFault, Cb: noCbFault, Disk: d}
		if s.op.FromRoot {
			e.Tree = s.forest[0]
		}
		return e
	}
	if needsFS(s.op) && arm == "core" && c.Chance(1, 12) {
		// the target directory is given as "/", with the process standing in the prepared
		// directory: "/" is the root directory and nothing else (the jail refuses it, in both modes)
		s.op.SlashTarget, simple.SlashTarget = true, true
		c.Scenario["target_given_as_slash"] = true
		c.st.Count("slash-target")
		if old, err := os.Getwd(); err == nil {
			defer os.Chdir(old)
		}
	}
	stand := func(d *DiskPlan) {
		if s.op.SlashTarget && d != nil {
			if os.Chdir(d.Target) != nil {
				os.Chdir(d.Jail)
			}
		}
	}
	if simple.Kind == "output" && !simple.FromRoot && c.Chance(1, 6) {
		simple.NoIter = true // the other simple-mode path (slices instead of iterators)
		c.st.Count("reference:simple/noiter")
	}
	d1 := s.prepareTarget(c, 1)
	stand(d1)
	ref := c.Direct(simple, mk(d1))
	refSnap := targetSnap(d1)
	dropJail(d1)
	if len(ref.Panics) > 0 {
		c.Skip("simple-mode panic (C12's business)")
	}

	if arm == "core" && c.Chance(1, 5) {
		// an unrelated massive call on a document in another notation first: a call's result
		// must not depend on what the process did before (per-call state only)
		pf := genForest(c, forestOpts{maxRoots: 2, maxExtra: 3, alpha: alphaPlain, distinctRoots: true, maxDepth: 3, maxFan: 2})
		psp := Spelling{Unit: []string{"    ", "\t", "   "}[c.Draw(3)], Bullets: "-", FinalNL: true, SharpRoots: c.Draw(4) == 0}
		pdoc, _ := spell(c, pf, psp)
		c.Scenario["earlier_call"] = string(pdoc)
		c.st.Count("with-earlier-call")
		c.Sim("prime", Op{Kind: "output", Massive: true}, &Env{Doc: pdoc, Reader: noReaderFault, Writer: noWriterFault, Cb: noCbFault})
	}
	if c.Chance(1, 10) {
		s.op.NilCtx = true
	}
	d2 := s.prepareTarget(c, 2)
	stand(d2)
	env := mk(d2)
	env.Reader = readerPlanFor(c)
	got := c.Sim("main", s.op, env)
	gotSnap := targetSnap(d2)
	dropJail(d2)

	cls := strings.Join(s.classes(), "+")
	if len(s.forest) >= 2 && got.Probes["sched.choice>=2"] > 0 {
		c.st.Distinct("nontrivial", mix(hashStr(string(s.doc)+s.op.String()), got.TraceHash))
	}
	c.st.Sample(arm+"/"+s.op.Kind, map[string]any{"arm": arm, "op": s.op.String(), "doc": string(s.doc), "steps": got.Steps, "tasks": got.Tasks})

	if ps := firstPanicSig(got); ps != "" {
		c.Failf("C10:panic:"+cls+":"+ps, "massive mode panicked (%s) where simple mode returned %s\n%s", got.Panics[0].Value, errStr(ref.Err), got.Panics[0].Stack)
	}
	if got.Hang || got.StepCap {
		c.Failf("C10:no-result:"+cls, "massive mode did not return (hang=%v stepcap=%v); simple mode returned %s", got.Hang, got.StepCap, errStr(ref.Err))
	}
	c.failLateEffects("C10", s.op, got)
	// The known finding for documents whose blocks do not indent alike is that the result
	// depends on which block teaches the shared parser first. When the blocks are parsed in
	// document order the parser sees what simple mode sees, so that schedule must agree with
	// simple mode; if even it does not, the difference is something else.
	docOrder := func() {
		if !strings.Contains(cls, "mixed-units") || strings.Contains(cls, "sharp-roots") || strings.Contains(cls, "overlapping-roots") {
			return
		}
		d3 := s.prepareTarget(c, 3)
		stand(d3)
		env3 := mk(d3)
		env3.Chooser = c.Chooser("docorder", stratFirst)
		c.st.Count("document-order-schedule-runs")
		g3 := c.Sim("docorder", s.op, env3)
		snap3 := targetSnap(d3)
		dropJail(d3)
		if len(g3.Panics) > 0 || g3.Hang || g3.StepCap {
			return
		}
		if (ref.Err == nil) != (g3.Err == nil) {
			c.Failf("C10:differs-even-when-blocks-are-parsed-in-document-order:"+s.op.Kind+":error-iff", "simple: %s\nmassive with every block parsed in document order: %s", errStr(ref.Err), errStr(g3.Err))
		}
		if ref.Err == nil {
			if clause, why := sameResult(c, s.op, s.parts, trees, ref, g3, refSnap, snap3); clause != "" {
				c.Failf("C10:differs-even-when-blocks-are-parsed-in-document-order:"+s.op.Kind+":"+clause, "%s", why)
			}
		}
	}
	if (ref.Err == nil) != (got.Err == nil) {
		which := "simple=ok,massive=error"
		if ref.Err != nil {
			which = "simple=error,massive=ok"
		}
		docOrder()
		c.Failf("C10:error-iff:"+cls+":"+s.op.Kind+":"+which, "simple: %s\nmassive: %s%s", errStr(ref.Err), errStr(got.Err), diskDetail(got))
	}
	if ref.Err != nil {
		c.st.Count("both-error")
		if s.op.Kind == "mkdir" && needsFS(s.op) && refSnap != gotSnap {
			c.Failf("C10:fs-differs-on-error:"+cls, "both modes failed (simple: %s, massive: %s) but left different filesystems\nsimple:\n%s\nmassive:\n%s", errStr(ref.Err), errStr(got.Err), refSnap, gotSnap)
		}
		return
	}
	if clause, why := sameResult(c, s.op, s.parts, trees, ref, got, refSnap, gotSnap); clause != "" {
		docOrder()
		c.Failf("C10:"+clause+":"+cls+":"+s.op.Kind, "%s", why)
	}
}

// ---- C11 -------------------------------------------------------------------------------------------

func init() {
	register(&Property{
		ID:    "C11",
		Level: "exploration",
		Rule: "one case = (document with 0..many failing blocks, operation, fault plan {cancel|deadline at step k, pre-cancelled, reader/writer/callback/disk failure at index k, pairs}, seeded schedule); " +
			"non-trivial = a fault actually fired or at least one block is malformed, and the schedule had a real choice; distinct = different (document, operation, plan, full schedule) hash",
		Case:  caseC11,
		Real:  []string{"gtree + gtree/markdown (instrumented copy of /repo working tree)", "channels, select (seeded), WaitGroup, context, errgroup"},
		Stubs: []string{"goroutine scheduler", "context owner (cancel/deadline at a step, fake clock)", "io.Reader / io.Writer / callback / filesystem shim with fault plans"},
	})
}

type faultPlan struct {
	kinds []string
	ctx   CtxPlan
	rd    ReaderPlan
	wr    WriterPlan
	cb    CbPlan
	diskAt int
	errno  syscall.Errno
	sticky bool
}

func (f *faultPlan) String() string {
	return fmt.Sprintf("%v ctx=%+v reader.failat=%d writer.failat=%d(torn=%v) cb.failat=%d disk.failat=%d(%v sticky=%v)", f.kinds, f.ctx, f.rd.FailAt, f.wr.FailAt, f.wr.Torn, f.cb.FailAt, f.diskAt, f.errno, f.sticky)
}

var errnos = []syscall.Errno{syscall.ENOSPC, syscall.EACCES, syscall.EIO, syscall.EROFS}

func genFaultPlan(c *Ctx, op Op, docLen int, allowNone bool) *faultPlan {
	f := &faultPlan{rd: noReaderFault, wr: noWriterFault, cb: noCbFault, diskAt: -1}
	f.rd = readerPlanFor(c)
	n := 1
	if c.Chance(1, 5) {
		n = 2
	}
	if allowNone && c.Chance(1, 6) {
		n = 0
		if c.Chance(1, 2) {
			f.ctx = CtxPlan{Mode: "own"}
		}
	}
	for i := 0; i < n; i++ {
		switch c.Pick(6, 1, 1, 3, 3, 2, 2) {
		case 0:
			f.ctx = CtxPlan{Mode: "cancel", AtStep: c.Draw(420), Custom: c.Draw(4) == 0}
			f.ctx.Cause = !f.ctx.Custom && c.Draw(4) == 0
			f.kinds = append(f.kinds, "cancel")
		case 1:
			f.ctx = CtxPlan{Mode: "pre", Custom: c.Draw(4) == 0}
			f.kinds = append(f.kinds, "precancelled")
		case 2:
			f.ctx = CtxPlan{Mode: "deadline", AtStep: c.Draw(420), Cause: c.Draw(4) == 0}
			f.kinds = append(f.kinds, "deadline")
		case 3:
			if !op.FromRoot {
				f.rd.FailAt = c.Draw(docLen + 1)
				f.rd.WithData = c.Draw(3) == 0
				f.kinds = append(f.kinds, "reader")
			}
		case 4:
			f.wr.FailAt = c.Draw(12)
			f.wr.Torn = c.Draw(3) == 0
			f.kinds = append(f.kinds, "writer")
		case 5:
			f.cb.FailAt = c.Draw(10)
			f.cb.Sticky = c.Draw(2) == 1
			f.kinds = append(f.kinds, "callback")
		case 6:
			f.diskAt = c.Draw(14)
			f.errno = errnos[c.Draw(len(errnos))]
			f.sticky = c.Draw(2) == 1
			f.kinds = append(f.kinds, "disk")
		}
	}
	return f
}

func (f *faultPlan) apply(env *Env) {
	env.Reader, env.Writer, env.Cb, env.Ctx = f.rd, f.wr, f.cb, f.ctx
	if env.Disk != nil && f.diskAt >= 0 {
		env.Disk.FailAt, env.Disk.Errno, env.Disk.Sticky = f.diskAt, f.errno, f.sticky
	}
}

func leakSig(out *Outcome) string {
	// the blocked site of the first leaked task, line numbers removed
	sites := map[string]bool{}
	var first string
	for _, l := range out.Leaks {
		s := classOfSite(l.Site)
		if !sites[s] {
			sites[s] = true
			if first == "" || s < first {
				first = s
			}
		}
	}
	return first
}

func leakDetail(out *Outcome) string {
	var sb strings.Builder
	for _, l := range out.Leaks {
		fmt.Fprintf(&sb, "  task %s (spawned at %s) %s at %s [%s]\n", l.ID, l.SpawnSite, l.State, l.Site, l.Kind)
	}
	return sb.String()
}

func caseC11(c *Ctx) {
	arm := pickArm(c, []string{"core", "malformed", "extended"}, 5, 4, 2)
	s := genMassiveScenario(c, arm, 6)
	plan := genFaultPlan(c, s.op, len(s.doc), true)
	s.describe(c)
	c.Scenario["faults"] = plan.String()
	c.st.Count("arm:" + arm)
	c.st.Count("op:" + s.op.Kind)
	for _, k := range plan.kinds {
		c.st.Count("fault.configured:" + k)
	}
	if len(s.malform) >= 2 {
		c.st.Count("probe:documents-with->=2-failing-blocks")
	}
	if len(s.malform) >= 3 {
		c.st.Count("probe:documents-with->=3-failing-blocks")
	}

	simple := s.op
	simple.Massive = false
	var trees []*MNode
	if s.op.FromRoot {
		trees = s.forest
	}
	mk := func(d *DiskPlan) *Env {
		e := &Env{Doc: s.doc, Reader: noReaderFault, Writer: noWriterFault, Cb: noCbFault, Disk: d}
		if s.op.FromRoot {
			e.Tree = s.forest[0]
		}
		return e
	}
	// fault-free simple-mode reference: tells whether the document/environment itself is
	// erroneous and what a complete result looks like
	d1 := s.prepareTarget(c, 1)
	ref := c.Direct(simple, mk(d1))
	refSnap := targetSnap(d1)
	dropJail(d1)
	if len(ref.Panics) > 0 {
		c.Skip("simple-mode panic (C12's business)")
	}

	if len(plan.kinds) == 0 && arm != "extended" && c.Chance(1, 3) {
		c11EnumCancel(c, s, arm, mk, ref, refSnap, trees)
		return
	}
	if arm == "core" && !s.op.FromRoot && c.Chance(1, 12) {
		c11Endless(c, s, mk)
		return
	}
	if arm == "core" && (s.op.Kind == "output" || (s.op.Kind == "mkdir" && s.op.DryRun && s.op.FromRoot)) && c.Chance(1, 12) {
		c11StalledWriter(c, s, mk)
		return
	}
	if arm == "core" && !s.op.FromRoot && !needsFS(s.op) && c.Chance(1, 12) {
		c11StalledReader(c, s, mk)
		return
	}
	d2 := s.prepareTarget(c, 2)
	env := mk(d2)
	plan.apply(env)
	if !s.op.FromRoot && plan.ctx.Mode != "deadline" && c.Chance(1, 5) {
		// the input arrives slowly: one Read takes 30 s of simulated time (no deadline of the
		// caller's is involved, so nothing may change but the time the call takes)
		env.Reader.Slow, env.Reader.SlowAt = true, c.Draw(3)
		c.st.Count("fault.configured:slow-reader")
	}
	env.MaxSteps = 40000 + 4*len(s.doc)
	env.Level2 = level2Build
	got := c.Sim("main", s.op, env)
	if got.Probes["reader.slow-read"] > 0 {
		c.st.Count("fault.fired:slow-reader(30s simulated)")
	}
	gotSnap := targetSnap(d2)
	dropJail(d2)

	fired := got.ReaderFired || got.WriterFired || got.CbFired || got.DiskFired > 0 || got.CancelFired
	if (fired || len(s.malform) > 0) && got.Probes["sched.choice>=2"] > 0 {
		c.st.Distinct("nontrivial", mix(hashStr(string(s.doc)+s.op.String()+plan.String()), got.TraceHash))
	}
	c.st.Sample(arm+"/"+strings.Join(plan.kinds, "+"), map[string]any{"arm": arm, "op": s.op.String(), "doc": string(s.doc), "faults": plan.String(), "steps": got.Steps, "result": errStr(got.Err), "cancel_step": got.CancelStep})

	judgeC11(c, s, arm, plan.ctx.Mode, ref, refSnap, got, gotSnap, trees, env.MaxSteps)
}

// judgeC11 applies C11's oracles to one massive-mode run.
func judgeC11(c *Ctx, s *massiveScenario, arm, ctxMode string, ref *Outcome, refSnap string, got *Outcome, gotSnap string, trees []*MNode, maxSteps int) {
	cls := strings.Join(s.classes(), "+")
	if ps := firstPanicSig(got); ps != "" {
		if got.ReaderFired || got.WriterFired || got.CbFired || got.DiskFired > 0 || got.CancelFired {
			// the property covers failing readers, writers and callbacks and cancellation: a crash
			// under one of them is not "returns"
			c.Failf("C11:panic-under-fault:"+ps, "massive %s panicked in task %s while a fault was being injected (reader=%v writer=%v callback=%v disk=%d cancel=%v): %s", s.op, got.Panics[0].Task, got.ReaderFired, got.WriterFired, got.CbFired, got.DiskFired, got.CancelFired, got.Panics[0].Value)
		}
		// a crash caused by the input alone is C12's verdict
		c.st.Count("panic-seen(not judged here)")
		return
	}
	if got.StepCap {
		c.Failf("C11:livelock:"+s.op.Kind, "step cap (%d) exceeded: the call does not terminate under this schedule", maxSteps)
	}
	if ctxMode == "pre" && got.Returned && got.Err == nil {
		c.Failf("C11:precancelled-but-nil:"+s.op.Kind, "%s was called with an already cancelled context and returned nil", s.op)
	}
	if got.Hang {
		c.Failf("C11:hang:"+leakOrCallerSite(got), "the call never returned; at final quiescence:\n%s", hangDetail(got))
	}
	if len(got.Leaks) > 0 {
		c.Failf("C11:leak:"+leakSig(got), "the call returned %s but %d goroutine(s) it started never finished:\n%s", errStr(got.Err), len(got.Leaks), leakDetail(got))
	}
	if got.Untracked > 0 {
		c.Failf("C11:leak:goroutine-outside-the-pipeline:"+s.op.Kind, "the call returned %s; every pipeline goroutine has finished, but %d goroutine(s) started during the call (by library code below gtree, e.g. package context watching the caller's context) are still there", errStr(got.Err), got.Untracked)
	}
	if len(got.Races) > 0 {
		c.Failf("C11:race:"+raceSig(got.Races[0]), "%s", strings.Join(got.Races, "\n"))
	}
	c.failLateEffects("C11", s.op, got)
	// result under cancellation
	if got.CancelFired && got.CancelBeforeReturn {
		c.st.Count("cancel-before-return")
		want := context.Canceled
		if ctxMode == "deadline" {
			want = context.DeadlineExceeded
		}
		switch {
		case got.Err == nil:
			// only acceptable if the work was complete
			complete := true
			why := ""
			if ref.Err != nil {
				complete, why = false, "simple mode reports "+ref.Err.Error()
			} else if cl, w := sameResult(c, s.op, s.parts, trees, ref, got, refSnap, gotSnap); cl != "" {
				complete, why = false, cl+": "+w
			}
			otherFault := got.ReaderFired || got.WriterFired || got.CbFired || got.DiskFired > 0
			if !complete && !otherFault && !(arm == "extended" && !strings.HasPrefix(why, "output-truncated") && !strings.HasPrefix(why, "walk-truncated")) {
				c.Failf("C11:cancelled-but-nil-incomplete:"+s.op.Kind+":"+cls, "context %s at step %d before the call returned; the call returned nil with an incomplete result (%s)", ctxMode, got.CancelStep, why)
			}
			c.st.Count("cancel:nil-complete")
		case errors.Is(got.Err, want):
			c.st.Count("cancel:ctx-error")
		default:
			explained := ref.Err != nil || got.ReaderFired || got.WriterFired || got.CbFired || got.DiskFired > 0
			// on the extended spellings massive mode may fail where simple mode does not
			// (C10's known findings); that is not judged a second time here
			if !explained && arm != "extended" && !strings.Contains(cls, "mixed-units") && !strings.Contains(cls, "sharp-roots") && !strings.Contains(cls, "overlapping-roots") {
				c.Failf("C11:cancelled-unexplained-error:"+s.op.Kind, "context cancelled at step %d; the call returned %q, which is neither the context's error nor an error of the input or an injected fault", got.CancelStep, got.Err)
			}
			c.st.Count("cancel:other-true-error")
		}
	}
}

func leakOrCallerSite(out *Outcome) string {
	if s := leakSig(out); s != "" {
		return s
	}
	return "caller"
}

func hangDetail(out *Outcome) string {
	return leakDetail(out) + "  (caller task 0 did not return)\n" + out.BubbleErr
}

func raceSig(r string) string {
	if i := strings.Index(r, "\n"); i > 0 {
		r = r[:i]
	}
	return r
}

var level2Build = false

// ---- C12 -------------------------------------------------------------------------------------------

func init() {
	register(&Property{
		ID:    "C12",
		Level: "exploration",
		Rule: "one case = (byte string: grammar-aware mutation of a valid document, raw bytes, or empty/blank-only; entry point and options; simple or massive mode with a seeded schedule); " +
			"non-trivial = the input is not a well-formed document (mutated/raw/empty) ; distinct = different (bytes, operation, mode, schedule) hash",
		Case:  caseC12,
		Real:  []string{"gtree + gtree/markdown (instrumented copy of /repo working tree), simple mode incl. iter.Pull coroutines, massive pipeline"},
		Stubs: []string{"goroutine scheduler (massive mode)", "reader/writer/callback", "filesystem shim over a tmpfs jail"},
	})
}

func genBytes(c *Ctx) (string, []byte) {
	if c.Chance(1, 250) {
		var sb strings.Builder
		switch c.Draw(4) {
		case 0: // thousands of siblings
			sb.WriteString("- wide\n")
			for i := 0; i < 1500; i++ {
				fmt.Fprintf(&sb, "  - s%d\n", i)
			}
			return "huge-wide", []byte(sb.String())
		case 1: // very deep nesting
			for i := 0; i < 500; i++ {
				sb.WriteString(strings.Repeat(" ", i) + "- d\n")
			}
			return "huge-deep", []byte(sb.String())
		case 2: // a long run of blank lines inside a block and many roots
			for i := 0; i < 60; i++ {
				fmt.Fprintf(&sb, "- r%d\n%s  - k\n", i, strings.Repeat("\n", i*7%40))
			}
			return "many-roots-and-blank-runs", []byte(sb.String())
		default: // one single very long line without newline
			return "one-long-line", []byte("- " + strings.Repeat("x", 200000))
		}
	}
	switch c.Pick(2, 2, 5, 3, 1) {
	case 0:
		return "empty", nil
	case 1:
		bl := []string{"\n", " ", "\n\n\n", "  \n\t\n", "\r\n", " \n \n", "\u3000\n", "\u00a0 \u2003\n\n", "\u0085"}
		return "blank-only", []byte(bl[c.Draw(len(bl))])
	case 2:
		// grammar-aware mutation of a valid document
		f := genForest(c, forestOpts{maxRoots: 4, maxExtra: 5, alpha: c.Draw(3), maxDepth: 5, maxFan: 4})
		sp := genSpelling(c, c.Chance(1, 2))
		doc, _ := spell(c, f, sp)
		lines := strings.Split(string(doc), "\n")
		nm := 1 + c.Draw(3)
		for i := 0; i < nm; i++ {
			if len(lines) == 0 {
				break
			}
			li := c.Draw(len(lines))
			switch c.Draw(12) {
			case 0:
				lines = append(lines[:li], lines[li+1:]...)
			case 1:
				if li+1 < len(lines) {
					lines[li], lines[li+1] = lines[li+1], lines[li]
				}
			case 2:
				lines = append(lines[:li+1], lines[li:]...)
			case 3:
				lines[li] = "  " + lines[li]
			case 4:
				lines[li] = strings.TrimLeft(lines[li], " \t")
			case 5:
				lines[li] = "\t" + lines[li]
			case 6:
				lines[li] = "# " + strings.TrimLeft(lines[li], " \t-*+")
			case 7:
				lines[li] = lines[li] + "\x00"
			case 8:
				lines[li] = "\xff\xfe" + lines[li]
			case 9:
				lines[li] = lines[li] + strings.Repeat("x", 70*1024)
			case 10:
				lines = append([]string{"    - indented first"}, lines...)
			case 11:
				lines[li] = ""
			}
			if c.Draw(15) == 0 && len(lines) > 0 {
				// a blank line made of non-ASCII white space
				li2 := c.Draw(len(lines) + 1)
				lines = append(lines[:li2], append([]string{[]string{"\u3000", "\u00a0\u2003", "\u0085 "}[c.Draw(3)]}, lines[li2:]...)...)
			}
			if c.Draw(12) == 0 && len(lines) > 0 {
				// a long row of multi-byte runes without a bullet; a whitespace-only first line
				if c.Draw(2) == 0 {
					lines[c.Draw(len(lines))] = strings.Repeat("あ", 45+c.Draw(60))
				} else {
					lines = append([]string{[]string{"  ", "\t", " \t "}[c.Draw(3)]}, lines...)
				}
			}
			if c.Draw(5) == 0 && len(lines) > 0 {
				// path-like and degenerate names (mkdir / verify / dry-run meet them)
				hostile := []string{"./x.txt", "./././a.go", "a/../b.txt", "..", ".", "x/", "/abs", "a//b", "../up.md", "Makefile/.", strings.Repeat("d/", 40) + "e.go", "..."}
				lj := c.Draw(len(lines))
				ind := lines[lj][:len(lines[lj])-len(strings.TrimLeft(lines[lj], " \t"))]
				lines[lj] = ind + "- " + hostile[c.Draw(len(hostile))]
			}
		}
		return "mutated", []byte(strings.Join(lines, "\n"))
	case 3:
		n := c.Draw(40)
		b := make([]byte, n)
		alphabet := []byte("-*+# \t\n\nab\x00\xff/.")
		for i := range b {
			if c.Draw(4) == 0 {
				b[i] = byte(c.Draw(256))
			} else {
				b[i] = alphabet[c.Draw(len(alphabet))]
			}
		}
		return "raw", b
	default:
		// starts with an indented item
		return "indented-first", []byte("  - a\n- b\n  - c\n")
	}
}

func caseC12(c *Ctx) {
	class, doc := genBytes(c)
	massive := c.Chance(1, 2)
	op := genOp(c, massive)
	c.Scenario["class"] = class
	c.Scenario["doc"] = string(doc)
	c.Scenario["op"] = op.String()
	c.st.Count("input:" + class)
	c.st.Count("op:" + op.Kind)
	mode := "simple"
	if massive {
		mode = "massive"
	}
	c.st.Count("mode:" + mode)

	var d *DiskPlan
	if needsFS(op) {
		j := newJail()
		target := filepath.Join(j, "a", "b", "target") // two spare levels absorb ".." names inside the jail
		if op.Kind == "verify" && c.Chance(1, 4) {
			os.MkdirAll(filepath.Dir(target), 0o755) // the target itself does not exist
		} else {
			os.MkdirAll(target, 0o755)
		}
		d = &DiskPlan{Jail: j, Target: target, FailAt: -1}
		defer removeJail(j)
	}
	env := &Env{Doc: doc, Reader: readerPlanFor(c), Writer: noWriterFault, Cb: noCbFault, Disk: d, MaxSteps: 60000 + 4*len(doc)}
	if c.Chance(1, 6) {
		// the document arrives slowly (one Read takes 30 s of simulated time): only the time the
		// call takes may change
		env.Reader.Slow, env.Reader.SlowAt = true, c.Draw(3)
		c.st.Count("massive.slow-reader-configured")
	}
	preCancelled := massive && c.Chance(1, 10)
	if preCancelled {
		// an option value like any other: WithMassive with a context that is cancelled already
		env.Ctx = CtxPlan{Mode: "pre"}
		c.Scenario["context"] = "cancelled before the call"
		c.st.Count("massive-with-cancelled-context")
	}
	if len(doc) > 4096 && env.Reader.MaxChunk > 0 && env.Reader.MaxChunk < 512 {
		env.Reader.MaxChunk = 512 + env.Reader.MaxChunk // keep the step count of very long lines reasonable
	}
	var out *Outcome
	if massive {
		out = c.Sim("main", op, env)
	} else {
		out = c.Direct(op, env)
	}
	h := mix(hashStr(string(doc)+op.String()+mode), out.TraceHash)
	if class != "valid" {
		c.st.Distinct("nontrivial", h)
	}
	c.st.Sample(class+"/"+mode, map[string]any{"class": class, "op": op.String(), "doc": truncate(string(doc), 200), "result": errStr(out.Err)})

	inputClass := class
	if class == "mutated" || class == "raw" {
		inputClass = classifyBytes(doc)
	}
	if len(out.Panics) > 0 {
		p := out.Panics[0]
		c.Failf("C12:panic:"+mode+":"+p.Site+":"+inputClass, "panic in task %s: %s\n%s", p.Task, p.Value, p.Stack)
	}
	if out.Hang || out.StepCap {
		c.Failf("C12:hang:"+mode+":"+leakOrCallerSite(out)+":"+inputClass, "the call did not return (stepcap=%v)\n%s", out.StepCap, hangDetail(out))
	}
	if (class == "empty" || class == "blank-only") && !preCancelled {
		if out.Err != nil {
			c.Failf("C12:empty-input-error:"+mode+":"+op.Kind, "empty or blank-only input must give nil, got %q", out.Err)
		}
		if len(out.Out) != 0 || len(out.Visits) != 0 {
			c.Failf("C12:empty-input-output:"+mode+":"+op.Kind, "empty or blank-only input must give empty output, got %q / %d visits", out.Out, len(out.Visits))
		}
	}
}

// classifyBytes names the first structural class that applies to an arbitrary document.
func classifyBytes(doc []byte) string {
	s := string(doc)
	lines := strings.Split(s, "\n")
	first := ""
	for _, l := range lines {
		if strings.TrimSpace(l) != "" {
			first = l
			break
		}
	}
	switch {
	case strings.TrimSpace(s) == "":
		return "blank-only"
	case strings.HasPrefix(s, "\n") || strings.HasPrefix(s, "\r\n") || (len(lines) > 0 && strings.TrimSpace(lines[0]) == ""):
		return "leading-blank"
	case strings.Contains(s, "\n#") || strings.HasPrefix(s, "#"):
		return "sharp-line"
	case first != "" && (first[0] == ' ' || first[0] == '\t'):
		return "indented-first"
	case first != "" && !strings.ContainsAny(first[:1], "-*+#"):
		return "first-line-not-a-bullet"
	}
	return "other"
}

func truncate(s string, n int) string {
	if len(s) <= n {
		return s
	}
	return s[:n] + fmt.Sprintf("...(%d bytes)", len(s))
}

func diskDetail(out *Outcome) string {
	if len(out.DiskOps) == 0 {
		return ""
	}
	var sb strings.Builder
	sb.WriteString("\ndisk operations of the massive run:\n")
	for _, o := range out.DiskOps {
		fmt.Fprintf(&sb, "  #%d %s %s task=%s err=%s inj=%v\n", o.Idx, o.Op, o.Path, o.Task, o.Err, o.Injected)
	}
	return sb.String()
}

// differingFirstIndents reports whether the first indented line is not indented alike in
// every root block, blocks being cut the way the massive splitter cuts them (a new block at
// every line whose first byte is one of "#-*+").
// mixedSeparators reports whether the document indents some lines with blanks and others
// with tabs. The shared parser keeps the kind of separator it met first and forgets it at
// every root line - of any block, so in massive mode what it accepts depends on which
// worker parses a root line in between (same known finding as for differing units).
func mixedSeparators(doc []byte) bool {
	blank, tab := false, false
	for _, l := range strings.Split(string(doc), "\n") {
		if strings.TrimSpace(l) == "" {
			continue
		}
		switch l[0] {
		case ' ':
			blank = true
		case '\t':
			tab = true
		}
	}
	return blank && tab
}

func differingFirstIndents(doc []byte) bool {
	seen := ""
	need := false
	for _, l := range strings.Split(string(doc), "\n") {
		l = strings.TrimSuffix(l, "\r")
		if l != "" && strings.ContainsRune("#-*+", rune(l[0])) {
			need = true
			continue
		}
		t := strings.TrimLeft(l, " \t")
		if t == "" || !need {
			continue
		}
		need = false
		ind := l[:len(l)-len(t)]
		if seen == "" {
			seen = ind
		} else if seen != ind {
			return true
		}
	}
	return false
}

// c11EnumCancel: one fault-free base schedule of N steps, then the same schedule with the
// caller's context cancelled at step k, for EVERY k in 0..N (thorough tier) or for an
// evenly spread subset (quick tier). After the cancellation the schedule continues with a
// seeded uniform strategy.
func c11EnumCancel(c *Ctx, s *massiveScenario, arm string, mk func(*DiskPlan) *Env, ref *Outcome, refSnap string, trees []*MNode) {
	rp := readerPlanFor(c)
	d0 := s.prepareTarget(c, 3)
	env0 := mk(d0)
	env0.Reader = rp
	env0.MaxSteps = 40000 + 4*len(s.doc)
	base := c.Sim("base", s.op, env0)
	dropJail(d0)
	baseSched := append([]int(nil), c.SchedOut["base"]...)
	n := base.Steps
	c.st.Count("cancel-enumeration.cases")
	var ks []int
	if k, ok := c.Param("k"); ok {
		ks = []int{k}
	} else if (*fTier == "thorough" && n <= 400) || n <= 24 {
		for k := 0; k <= n; k++ {
			ks = append(ks, k)
		}
	} else if *fTier == "thorough" {
		// long base schedules (many roots): every (n/400+1)-th instant, from a seeded offset
		stride := n/400 + 1
		for k := int(mix(c.Seed, 78) % uint64(stride)); k <= n; k += stride {
			ks = append(ks, k)
		}
	} else {
		off := int(mix(c.Seed, 77) % uint64(n/16+1))
		for k := off; k <= n; k += n/16 + 1 {
			ks = append(ks, k)
		}
	}
	c.Scenario["faults"] = fmt.Sprintf("cancellation enumerated over a base schedule of %d steps (%d instants)", n, len(ks))
	for _, k := range ks {
		name := fmt.Sprintf("k%d", k)
		d := s.prepareTarget(c, 4)
		env := mk(d)
		env.Reader = rp
		env.Ctx = CtxPlan{Mode: "cancel", AtStep: k}
		env.MaxSteps = 40000 + 4*len(s.doc)
		env.Level2 = level2Build
		env.Chooser = c.ChooserFrom(name, baseSched, uint64(k)+1)
		c.SetParam("k", k)
		c.Scenario["cancel_at_step"] = k
		got := c.Sim(name, s.op, env)
		gotSnap := targetSnap(d)
		dropJail(d)
		c.st.Count("cancel-enumeration.runs")
		if got.CancelFired && got.Probes["sched.choice>=2"] > 0 {
			c.st.Distinct("nontrivial", mix(hashStr(string(s.doc)+s.op.String()+name), got.TraceHash))
		}
		judgeC11(c, s, arm, "cancel", ref, refSnap, got, gotSnap, trees, env.MaxSteps)
		c.dropSched(name)
	}
	c.st.Sample("cancel-enumeration", map[string]any{"arm": arm, "op": s.op.String(), "doc": string(s.doc), "base_steps": n, "cancel_instants_enumerated": len(ks)})
}

// c11Endless: the input never ends (after the document the reader keeps delivering one more
// child line); only the cancellation can end the call, and it must.
func c11Endless(c *Ctx, s *massiveScenario, mk func(*DiskPlan) *Env) {
	d := s.prepareTarget(c, 5)
	env := mk(d)
	env.Reader = readerPlanFor(c)
	env.Reader.Endless = s.sp.Unit + "- more\n"
	if !strings.HasSuffix(string(s.doc), "\n") {
		env.Doc = append(append([]byte(nil), s.doc...), '\n')
	}
	mode := []string{"cancel", "deadline"}[c.Draw(2)]
	env.Ctx = CtxPlan{Mode: mode, AtStep: 20 + c.Draw(400)}
	env.MaxSteps = 6000
	env.Level2 = level2Build
	c.Scenario["faults"] = fmt.Sprintf("endless input (%q repeated), context %s at step %d", env.Reader.Endless, mode, env.Ctx.AtStep)
	c.st.Count("endless-input")
	got := c.Sim("endless", s.op, env)
	dropJail(d)
	if got.EndlessReads > 0 && got.CancelFired {
		c.st.Distinct("nontrivial", mix(hashStr(string(s.doc)+s.op.String()+"endless"), got.TraceHash))
	}
	if len(got.Panics) > 0 {
		c.Failf("C11:panic-under-fault:"+got.Panics[0].Site, "endless input + cancellation: panic %s", got.Panics[0].Value)
	}
	if got.StepCap {
		c.Failf("C11:keeps-reading-after-cancellation:"+s.op.Kind, "the input never ends; the context was cancelled at step %d (fired=%v, returned=%v with %s) and after %d more steps goroutines of the call are still busy (%d reads of the endless tail):\n%s", env.Ctx.AtStep, got.CancelFired, got.Returned, errStr(got.Err), got.Steps-got.CancelStep, got.EndlessReads, leakDetail(got))
	}
	if got.Hang {
		c.Failf("C11:hang:"+leakOrCallerSite(got), "endless input, context cancelled at step %d: the call never returned\n%s", env.Ctx.AtStep, hangDetail(got))
	}
	if len(got.Leaks) > 0 {
		c.Failf("C11:leak:"+leakSig(got), "endless input, context cancelled: the call returned %s but goroutines remain:\n%s", errStr(got.Err), leakDetail(got))
	}
	if got.Returned && got.Err == nil {
		c.Failf("C11:cancelled-but-nil-incomplete:"+s.op.Kind+":endless-input", "the input never ends, so the work cannot be complete, yet the call returned nil")
	}
}

// c11StalledWriter: one Write never returns (a stalled pipe). With a cancellation the call
// must still return; the goroutines stuck behind the caller's writer are the caller's.
// c11StalledReader: the caller's reader goes silent after some bytes (Read never returns);
// the context is cancelled later. The call must return with the context's error: only the
// goroutine that sits in Read may stay behind, and it must not be the caller's.
func c11StalledReader(c *Ctx, s *massiveScenario, mk func(*DiskPlan) *Env) {
	env := mk(nil)
	env.Reader = readerPlanFor(c)
	env.Reader.Stall = true
	switch c.Draw(3) {
	case 0:
		env.Reader.StallAt = 0 // before the first byte
	case 1:
		env.Reader.StallAt = c.Draw(1 + len(firstLine(s.doc))) // inside the first line
	default:
		env.Reader.StallAt = c.Draw(len(s.doc) + 1)
	}
	mode := []string{"cancel", "deadline"}[c.Draw(2)]
	env.Ctx = CtxPlan{Mode: mode, AtStep: 30 + c.Draw(500)}
	env.MaxSteps = 40000 + 4*len(s.doc)
	c.Scenario["faults"] = fmt.Sprintf("the reader goes silent after %d bytes, context %s at step %d", env.Reader.StallAt, mode, env.Ctx.AtStep)
	c.st.Count("stalled-reader")
	got := c.Sim("stalled-reader", s.op, env)
	if !got.ReaderStalled {
		return
	}
	c.st.Count("fault.fired:reader-stall")
	if got.CancelFired {
		c.st.Distinct("nontrivial", mix(hashStr(string(s.doc)+s.op.String()+"stalled-reader"), got.TraceHash))
	}
	if len(got.Panics) > 0 {
		c.Failf("C11:panic-under-fault:"+got.Panics[0].Site, "stalled reader + cancellation: panic %s", got.Panics[0].Value)
	}
	if got.StepCap {
		c.Failf("C11:livelock:"+s.op.Kind, "stalled reader: step cap exceeded")
	}
	if got.CancelFired && got.CancelBeforeReturn && !got.Returned {
		c.Failf("C11:no-return-behind-stalled-reader:"+s.op.Kind, "the caller's reader went silent after %d bytes; the context was cancelled at step %d and the call still did not return:\n%s", env.Reader.StallAt, got.CancelStep, hangDetail(got))
	}
	if got.Returned && got.CancelFired && got.CancelBeforeReturn && got.Err == nil {
		c.Failf("C11:nil-after-cancel-behind-stalled-reader:"+s.op.Kind, "the input was never read to its end, the context was cancelled before the call returned, and the call returned nil")
	}
}

func firstLine(doc []byte) []byte {
	if i := bytes.IndexByte(doc, '\n'); i >= 0 {
		return doc[:i+1]
	}
	return doc
}

func c11StalledWriter(c *Ctx, s *massiveScenario, mk func(*DiskPlan) *Env) {
	env := mk(nil)
	env.Reader = readerPlanFor(c)
	env.Writer = WriterPlan{FailAt: c.Draw(6), Stall: true}
	mode := []string{"cancel", "deadline"}[c.Draw(2)]
	env.Ctx = CtxPlan{Mode: mode, AtStep: 30 + c.Draw(500), Cause: c.Draw(3) == 0}
	env.MaxSteps = 40000 + 4*len(s.doc)
	c.Scenario["faults"] = fmt.Sprintf("write #%d never returns, context %s at step %d", env.Writer.FailAt, mode, env.Ctx.AtStep)
	c.st.Count("stalled-writer")
	got := c.Sim("stalled", s.op, env)
	if !got.WriterStalled {
		return // fewer writes than the stall index: nothing injected
	}
	c.st.Count("fault.fired:writer-stall")
	if got.CancelFired {
		c.st.Distinct("nontrivial", mix(hashStr(string(s.doc)+s.op.String()+"stalled"), got.TraceHash))
	}
	if len(got.Panics) > 0 {
		c.Failf("C11:panic-under-fault:"+got.Panics[0].Site, "stalled writer + cancellation: panic %s", got.Panics[0].Value)
	}
	if got.StepCap {
		c.Failf("C11:livelock:"+s.op.Kind, "stalled writer: step cap exceeded")
	}
	if got.CancelFired && got.CancelBeforeReturn && !got.Returned {
		c.Failf("C11:no-return-behind-stalled-writer:"+s.op.Kind, "write #%d of the caller's writer never returns; the context was cancelled at step %d and the call still did not return:\n%s", env.Writer.FailAt, got.CancelStep, hangDetail(got))
	}
}
