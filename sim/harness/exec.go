package simharness

import (
	"bytes"
	"context"
	"reflect"
	"errors"
	"fmt"
	"io"
	"os"
	"path/filepath"
	"runtime"
	"sort"
	"strings"
	"sync/atomic"
	"syscall"
	"testing"
	"testing/synctest"
	"time"

	"github.com/ddddddO/gtree"
	"github.com/ddddddO/gtree/simfs"
	"github.com/ddddddO/gtree/simrt"
	"github.com/fatih/color"
)

var theT *testing.T

// Op is one library operation with its options.
type Op struct {
	Kind     string   `json:"kind"` // output | walk | walkiter | mkdir | verify
	FromRoot bool     `json:"from_root,omitempty"`
	Massive  bool     `json:"massive,omitempty"`
	Encode   int      `json:"encode,omitempty"` // 0 text 1 json 2 yaml 3 toml
	DryRun   bool     `json:"dry_run,omitempty"`
	Branch   []string `json:"branch,omitempty"` // last.directly, last.indirectly, mid.directly, mid.indirectly
	Exts     []string `json:"exts,omitempty"`
	Strict   bool     `json:"strict,omitempty"`
	Alias    bool     `json:"alias,omitempty"`   // deprecated alias of the function
	NoIter   bool     `json:"no_iter,omitempty"` // deprecated benchmark option (slice path of simple output)
	NilCtx   bool     `json:"nil_ctx,omitempty"`    // WithMassive(nil)
	NilOption bool    `json:"nil_option,omitempty"` // a nil Option among the options
	EmptyTarget bool  `json:"empty_target,omitempty"` // WithTargetDir("") is passed: documented to mean the current directory
	PreCancelled bool `json:"pre_cancelled,omitempty"` // iterator walk given WithMassive(ctx) with ctx cancelled already (the iterator form has no massive mode)
	StrayEncode bool  `json:"stray_encode,omitempty"` // WithEncodeYAML() is passed to an operation that produces no encoded output (known finding: the library then skips growing the tree)
	Stray    bool     `json:"stray,omitempty"`        // options the operation has no use for are passed too (accepted and ignored, alike in every mode and family)
	SlashTarget bool  `json:"slash_target,omitempty"` // WithTargetDir("/") is passed: the root directory (outside the jail: refused)
	Decoys   bool     `json:"decoys,omitempty"`       // every option is preceded by the same option with another value: the last one wins
	BranchOnly string `json:"branch_only,omitempty"`  // "last" | "mid": only that one of the two branch-format options is passed
}

func (o Op) String() string {
	s := o.Kind
	if o.FromRoot {
		s += "/root"
	} else {
		s += "/md"
	}
	if o.Massive {
		s += "/massive"
	}
	s += []string{"", "/json", "/yaml", "/toml"}[o.Encode]
	if o.DryRun {
		s += "/dry"
	}
	if o.Strict {
		s += "/strict"
	}
	if o.Alias {
		s += "/alias"
	}
	if o.NoIter {
		s += "/noiter"
	}
	if o.NilCtx {
		s += "/nilctx"
	}
	if len(o.Branch) > 0 {
		s += "/branch"
	}
	if len(o.Exts) > 0 {
		s += "/exts=" + strings.Join(o.Exts, ",")
	}
	if o.Decoys {
		s += "/every-option-twice"
	}
	if o.Stray {
		s += "/with-unused-options"
	}
	if o.StrayEncode {
		s += "/with-encode-option"
	}
	if o.PreCancelled {
		s += "/cancelled-context"
	}
	if o.NilOption {
		s += "/nil-option"
	}
	if o.EmptyTarget {
		s += "/target-dir-empty-string"
	}
	if o.SlashTarget {
		s += "/target-dir-slash"
	}
	return s
}

// CtxPlan describes what happens to the context given to WithMassive.
type CtxPlan struct {
	Mode   string `json:"mode"`    // "" none | pre (already cancelled) | cancel | deadline
	AtStep int    `json:"at_step"` // scheduler step at which cancel / deadline happens
	Custom bool   `json:"custom"`  // the caller's context is a type of its own (the context package then watches it with a goroutine)
	Cause  bool   `json:"cause"`   // the context is cancelled with a cause of the caller's (WithCancelCause / WithTimeoutCause): Err() is still Canceled / DeadlineExceeded
}

// ownCtx is a context implemented by the caller, not by package context.
type ownCtx struct {
	done chan struct{}
	err  error
}

func (c *ownCtx) Deadline() (time.Time, bool) { return time.Time{}, false }
func (c *ownCtx) Done() <-chan struct{}       { return c.done }
func (c *ownCtx) Err() error                  { return c.err }
func (c *ownCtx) Value(any) any               { return nil }
func (c *ownCtx) cancel() {
	if c.err == nil {
		c.err = context.Canceled
		close(c.done)
	}
}

// DiskPlan configures the filesystem seam.
type DiskPlan struct {
	Jail      string        // per-case directory (absolute)
	Target    string        // target directory given to gtree (inside Jail)
	FailAt    int           // op index (-1 none)
	Errno     syscall.Errno // errno injected
	Sticky    bool          // persistent from FailAt on
	OnlyMut   bool
	OnlyRead  bool
}

// Env is everything around one operation.
type Env struct {
	Doc    []byte
	Tree   *MNode      // from-root operations build a fresh tree from this model ...
	Node   *gtree.Node // ... unless a live node is given (history checks)
	Reader ReaderPlan
	Writer WriterPlan
	Cb     CbPlan
	Ctx    CtxPlan
	Disk   *DiskPlan
	// simulation
	Sim      bool
	Chooser  simrt.Chooser
	MaxSteps int
	Trace    bool
	Level2   bool
	// AllowBubbleErr: the property judges a failed bubble itself (coroutine clean-up, C05)
	AllowBubbleErr bool
	// MapSeed seeds Go's map hash seeds and iteration offsets for the duration of the call
	MapSeed uint64
	// FlushWriter: the caller's writer also has a Flush() error method (like *bufio.Writer)
	FlushWriter bool
	// StringWriter: the caller's writer also implements io.StringWriter
	StringWriter bool
	// DiscardWriter: the destination is io.Discard itself
	DiscardWriter bool
}

type PanicInfo struct {
	Task  string `json:"task"`
	Site  string `json:"site"`
	Value string `json:"value"`
	Stack string `json:"stack,omitempty"`
}

// Outcome is everything observed about one operation.
type Outcome struct {
	Returned bool
	Err      error
	Out      []byte
	Segs     []Seg
	Visits   []Visit
	CbAfter  int
	DiskOps  []simfs.OpRec

	ReaderFired bool
	EndlessReads int
	WriterStalled bool
	ReaderStalled bool
	ReaderClosed  int
	ReaderErr   error
	WriterFired bool
	WriterErr   error
	WriterRefused int
	CbFired     bool
	CbErr       error
	DiskFired   int
	CancelFired bool
	CancelStep  int
	CtxErr      error // ctx.Err() at the end (nil if never cancelled)
	CancelBeforeReturn bool

	Panics   []PanicInfo
	Leaks    []simrt.TaskInfo
	Hang     bool
	StepCap  bool
	BubbleErr string
	Steps    int
	Tasks    int
	TraceHash, OrderHash uint64
	Probes   map[string]int
	Trace    []simrt.Step
	Races    []string
	WallNS   int64
	// effects (writes, callbacks, mutating disk operations) counted when the call returned
	// and at final quiescence: after a nil return nothing more may happen
	WritesAtReturn, VisitsAtReturn, MutOpsAtReturn int
	LateEffects                                    string
	StaleNodes                                     string
	Tampered                                       string // the library modified a slice that belongs to the caller
	Untracked                                      int    // goroutines left at final quiescence that the simulator did not start
}

func errStr(e error) string {
	if e == nil {
		return "<nil>"
	}
	return e.Error()
}

// buildNode builds a gtree node tree from the model in canonical (pre-order) Add order.
func buildNode(m *MNode) *gtree.Node {
	root := gtree.NewRoot(m.Name)
	var rec func(p *gtree.Node, m *MNode)
	rec = func(p *gtree.Node, m *MNode) {
		for _, k := range m.Kids {
			rec(p.Add(k.Name), k)
		}
	}
	rec(root, m)
	return root
}

// lastExtsGiven is the extension slice handed to the library by the last opOptions call.
var lastExtsGiven []string

func opOptions(op Op, ctx context.Context, target string) []gtree.Option {
	lastExtsGiven = nil
	var opts []gtree.Option
	if op.Massive {
		if op.NilCtx {
			opts = append(opts, gtree.WithMassive(nil)) // documented: nil means context.Background()
		} else {
			if op.Decoys {
				// the option given twice: the later context is the one that counts
				opts = append(opts, gtree.WithMassive(context.Background()))
			}
			opts = append(opts, gtree.WithMassive(ctx))
		}
	}
	if op.NilOption {
		opts = append(opts, nil) // nil options are skipped by the library
	}
	if op.Decoys {
		// options are applied in order, so a later option of the same kind overrides these
		if op.Encode != 0 {
			opts = append(opts, []gtree.Option{gtree.WithEncodeTOML(), gtree.WithEncodeJSON(), gtree.WithEncodeYAML()}[op.Encode%3])
		}
		if len(op.Branch) == 4 {
			opts = append(opts, gtree.WithBranchFormatLastNode("?", "??"), gtree.WithBranchFormatIntermedialNode("!", "!!"))
		}
		if op.Exts != nil {
			opts = append(opts, gtree.WithFileExtensions([]string{".decoy", "a"}))
		}
		if target != "" || op.EmptyTarget {
			opts = append(opts, gtree.WithTargetDir("/nonexistent/gtree-sim-decoy-target"))
		}
	}
	switch op.Encode {
	case 1:
		opts = append(opts, gtree.WithEncodeJSON())
	case 2:
		opts = append(opts, gtree.WithEncodeYAML())
	case 3:
		opts = append(opts, gtree.WithEncodeTOML())
	}
	if op.DryRun {
		opts = append(opts, gtree.WithDryRun())
	}
	if len(op.Branch) == 4 {
		switch op.BranchOnly {
		case "last":
			opts = append(opts, gtree.WithBranchFormatLastNode(op.Branch[0], op.Branch[1]))
		case "mid":
			opts = append(opts, gtree.WithBranchFormatIntermedialNode(op.Branch[2], op.Branch[3]))
		default:
			opts = append(opts, gtree.WithBranchFormatLastNode(op.Branch[0], op.Branch[1]), gtree.WithBranchFormatIntermedialNode(op.Branch[2], op.Branch[3]))
		}
	}
	if op.Exts != nil {
		lastExtsGiven = append(make([]string, 0, len(op.Exts)+2), op.Exts...) // own backing array, spare capacity
		opts = append(opts, gtree.WithFileExtensions(lastExtsGiven))
	}
	if op.EmptyTarget {
		opts = append(opts, gtree.WithTargetDir(""))
	} else if op.SlashTarget {
		opts = append(opts, gtree.WithTargetDir("/"))
	} else if target != "" {
		opts = append(opts, gtree.WithTargetDir(target))
	}
	if op.Strict {
		opts = append(opts, gtree.WithStrictVerify())
	}
	if op.StrayEncode && op.Kind != "output" && op.Encode == 0 {
		opts = append(opts, gtree.WithEncodeYAML())
	}
	if op.Stray {
		if op.Kind != "verify" {
			opts = append(opts, gtree.WithStrictVerify())
		}
		if !needsFS(op) && !op.EmptyTarget && !op.SlashTarget {
			opts = append(opts, gtree.WithTargetDir("/nonexistent/gtree-sim-stray-target"))
		}
	}
	if op.NoIter {
		opts = append(opts, gtree.WithNoUseIterOfSimpleOutput())
	}
	return withSentinel(opts)
}

// invoke calls the public entry point selected by op.
func invoke(op Op, w io.Writer, r io.Reader, root *gtree.Node, cb *simCallback, opts []gtree.Option) error {
	r = asGiven(r)
	switch op.Kind {
	case "output":
		if op.FromRoot {
			if op.Alias {
				return gtree.OutputProgrammably(w, root, opts...)
			}
			return gtree.OutputFromRoot(w, root, opts...)
		}
		if op.Alias {
			return gtree.Output(w, r, opts...)
		}
		return gtree.OutputFromMarkdown(w, r, opts...)
	case "walk":
		if op.FromRoot {
			if op.Alias {
				return gtree.WalkProgrammably(root, cb.fn, opts...)
			}
			return gtree.WalkFromRoot(root, cb.fn, opts...)
		}
		if op.Alias {
			return gtree.Walk(r, cb.fn, opts...)
		}
		return gtree.WalkFromMarkdown(r, cb.fn, opts...)
	case "walkiter":
		it := gtree.WalkIterFromRoot(root, opts...)
		if op.Alias {
			it = gtree.WalkIterProgrammably(root, opts...)
		}
		idx := 0
		var ret error
		for wn, err := range it {
			if err != nil {
				ret = err
				break
			}
			if cb.yield {
				simrt.Yield("stub:consumer")
			}
			cb.visits = append(cb.visits, visitOf(wn))
			cb.ptrs = append(cb.ptrs, wn)
			if idx == 0 && cb.inner != nil {
				cb.inner()
			}
			if cb.Fired {
				cb.after++
			}
			if cb.plan.FailAt >= 0 && idx == cb.plan.FailAt {
				cb.Fired = true
				break
			}
			idx++
		}
		return ret
	case "mkdir":
		if op.FromRoot {
			if op.DryRun {
				old := color.Output
				color.Output = w
				defer func() { color.Output = old }()
			}
			if op.Alias {
				return gtree.MkdirProgrammably(root, opts...)
			}
			return gtree.MkdirFromRoot(root, opts...)
		}
		if op.Alias {
			return gtree.Mkdir(r, opts...)
		}
		return gtree.MkdirFromMarkdown(r, opts...)
	case "verify":
		if op.FromRoot {
			if op.Alias {
				return gtree.VerifyProgrammably(root, opts...)
			}
			return gtree.VerifyFromRoot(root, opts...)
		}
		if op.Alias {
			return gtree.Verify(r, opts...)
		}
		return gtree.VerifyFromMarkdown(r, opts...)
	}
	panic("unknown op kind " + op.Kind)
}

// noFSJail is the jail of operations that are not supposed to touch the filesystem at
// all: every operation is refused (EPERM) and recorded instead of reaching the real cwd.
var noFSJail = &DiskPlan{Jail: "/nonexistent/gtree-sim-no-fs", FailAt: -1}

func installDisk(p *DiskPlan, yield bool) *simfs.Disk {
	if p == nil {
		p = noFSJail
	}
	d := simfs.NewDisk(p.Jail)
	d.Yield = yield
	if p.FailAt >= 0 {
		if p.Sticky {
			d.FailFrom = p.FailAt
			d.FailErrno = p.Errno
			d.OnlyMut = p.OnlyMut
			d.OnlyRead = p.OnlyRead
		} else {
			d.FailAt[p.FailAt] = p.Errno
		}
	}
	simfs.Install(d)
	return d
}

// Exec runs one operation, directly (no scheduler; every hook is a pass-through) or under
// the simulator.
func Exec(op Op, env *Env) *Outcome {
	if env.Sim {
		return execSim(op, env)
	}
	out := &Outcome{Probes: map[string]int{}}
	rd := newSimReader(env.Doc, env.Reader, false)
	wr := newSimWriter(env.Writer, false)
	cb := newSimCallback(env.Cb, false)
	var root *gtree.Node
	if op.FromRoot {
		root = env.Node
		if root == nil && env.Tree != nil {
			root = buildNode(env.Tree)
		}
	}
	target := ""
	if env.Disk != nil {
		target = env.Disk.Target
	}
	ctx := context.Background()
	if env.Ctx.Mode == "pre" {
		c2, cancel := context.WithCancel(ctx)
		cancel()
		ctx = c2
		out.CancelFired = true
		out.CancelBeforeReturn = true
	}
	d := installDisk(env.Disk, false)
	defer simfs.Uninstall()
	func() {
		defer func() {
			if p := recover(); p != nil {
				buf := make([]byte, 8<<10)
				out.Panics = append(out.Panics, PanicInfo{Task: "0", Value: fmt.Sprint(p), Site: "caller", Stack: string(buf[:runtimeStack(buf)])})
			}
		}()
		simrt.SeedMaps(env.MapSeed | 1)
		defer simrt.SeedMaps(0)
		var w io.Writer = wr
		if env.FlushWriter {
			w = flushWriter{wr}
		} else if env.StringWriter {
			w = stringWriter{wr}
		} else if env.DiscardWriter {
			w = io.Discard
		}
		opts := opOptions(op, ctx, target)
		given := lastExtsGiven
		out.Err = invoke(op, w, rd, root, cb, opts)
		out.Returned = true
		out.Tampered = tampered(opts, given, op.Exts)
	}()
	collect(out, rd, wr, cb, d)
	out.CtxErr = ctx.Err()
	return out
}

func collect(out *Outcome, rd *simReader, wr *simWriter, cb *simCallback, d *simfs.Disk) {
	out.Out = wr.buf
	out.Segs = wr.segs
	out.Visits = cb.visits
	out.CbAfter = cb.after
	out.StaleNodes = cb.staleNodes()
	out.ReaderFired, out.ReaderErr = rd.Fired, rd.Err
	out.EndlessReads, out.WriterStalled = rd.EndlessReads, wr.Stalled
	out.ReaderStalled = rd.Stalled
	if rd.SlowFired {
		out.Probes["reader.slow-read"]++
	}
	out.ReaderClosed = rd.Closed
	out.WriterFired, out.WriterErr = wr.Fired, wr.Err
	out.WriterRefused = wr.Refused
	out.CbFired, out.CbErr = cb.Fired, cb.Err
	if d != nil {
		out.DiskOps = d.Records()
		out.DiskFired = d.Fired
	}
}

var bubbleSeq atomic.Int64

func execSim(op Op, env *Env) *Outcome {
	out := &Outcome{Probes: map[string]int{}}
	maxSteps := env.MaxSteps
	if maxSteps == 0 {
		maxSteps = 200000
	}
	rd := newSimReader(env.Doc, env.Reader, true)
	wr := newSimWriter(env.Writer, true)
	cb := newSimCallback(env.Cb, true)
	target := ""
	if env.Disk != nil {
		target = env.Disk.Target
	}
	var run *simrt.Run
	var d *simfs.Disk
	var infos []simrt.TaskInfo
	t0 := time.Now()
	var retAtEnd, atEnd bool
	var errAtEnd error
	var bufAtEnd, segsAtEnd, visitsAtEnd, wnAtEnd int
	func() {
		defer func() {
			if p := recover(); p != nil {
				out.BubbleErr = fmt.Sprint(p)
			}
		}()
		synctest.Test(theT, func(t *testing.T) {
			run = simrt.NewRun(env.Chooser, maxSteps)
			run.KeepTrace = env.Trace
			var rdet *raceDetector
			if env.Level2 {
				rdet = newRaceDetector(run)
			}
			run.Begin()
			defer run.End()
			simrt.SeedMaps(env.MapSeed | 1)
			defer simrt.SeedMaps(0)
			d = installDisk(env.Disk, true)
			defer simfs.Uninstall()
			ctx := context.Background()
			var cancel context.CancelFunc
			switch env.Ctx.Mode {
			case "pre":
				ctx, cancel = context.WithCancel(ctx)
				if env.Ctx.Custom {
					oc := &ownCtx{done: make(chan struct{})}
					ctx, cancel = oc, oc.cancel
				}
				cancel()
				out.CancelFired = true
				out.CancelBeforeReturn = true
			case "own":
				// never cancelled during the call, but a context type of the caller's own
				// (deliberately not cancelled by the harness at the end either: a goroutine that
				// package context started to watch it must have been released by the library itself,
				// or it is still there when the bubble ends)
				oc := &ownCtx{done: make(chan struct{})}
				ctx, cancel = oc, nil
			case "cancel":
				ctx, cancel = context.WithCancel(ctx)
				if env.Ctx.Cause && !env.Ctx.Custom {
					c2, cc := context.WithCancelCause(context.Background())
					ctx, cancel = c2, func() { cc(errors.New("the caller's own cause")) }
				}
				if env.Ctx.Custom {
					oc := &ownCtx{done: make(chan struct{})}
					ctx, cancel = oc, oc.cancel
				}
				run.AtStep[env.Ctx.AtStep] = append(run.AtStep[env.Ctx.AtStep], func() {
					out.CancelFired = true
					out.CancelStep = run.Steps
					out.CancelBeforeReturn = !out.Returned
					if rdet != nil {
						rdet.envCancel()
					}
					nb := 0
					for _, ti := range run.Infos() {
						if ti.State == "blocked" {
							nb++
						}
					}
					if nb > 0 {
						out.Probes["cancel.while-tasks-blocked-in-an-operation"]++
					}
					if nb >= 10 {
						out.Probes["cancel.while->=10-tasks-blocked"]++
					}
					cancel()
				})
			case "deadline":
				ctx, cancel = context.WithTimeout(ctx, time.Hour)
				if env.Ctx.Cause {
					ctx, cancel = context.WithTimeoutCause(context.Background(), time.Hour, errors.New("the caller's own cause"))
				}
				run.AtStep[env.Ctx.AtStep] = append(run.AtStep[env.Ctx.AtStep], func() {
					out.CancelFired = true
					out.CancelStep = run.Steps
					out.CancelBeforeReturn = !out.Returned
					if rdet != nil {
						rdet.envCancel()
					}
					time.Sleep(2 * time.Hour)
				})
			}
			if cancel != nil {
				defer cancel()
			}
			var root *gtree.Node
			if op.FromRoot {
				root = env.Node
				if root == nil && env.Tree != nil {
					root = buildNode(env.Tree)
				}
			}
			opts := opOptions(op, ctx, target)
			given := lastExtsGiven
			g0 := runtime.NumGoroutine()
			var w io.Writer = wr
			if env.FlushWriter {
				w = flushWriter{wr}
			} else if env.StringWriter {
				w = stringWriter{wr}
			} else if env.DiscardWriter {
				w = io.Discard
			}
			run.Spawn("0", "harness:0:caller", func() {
				out.Err = invoke(op, w, rd, root, cb, opts)
				out.Returned = true
				out.WritesAtReturn, out.VisitsAtReturn = wr.n, len(cb.visits)
				if d != nil {
					out.MutOpsAtReturn = countMut(d.Records())
				}
			})
			run.Loop()
			retAtEnd, errAtEnd = out.Returned, out.Err
			bufAtEnd, segsAtEnd, visitsAtEnd, wnAtEnd = len(wr.buf), len(wr.segs), len(cb.visits), wr.n
			atEnd = true
			// goroutines that exist now, were not there before the call and are not tasks of the
			// simulator: started by library code the instrumenter does not see (package context
			// watching a foreign context type, for instance)
			_ = g0
			out.Tampered = tampered(opts, given, op.Exts)
			// snapshot the task states at final quiescence, before the deferred clean-up of the
			// harness (cancel of its own context) can wake anything
			infos = run.Infos()
			out.CtxErr = ctx.Err()
			if rdet != nil {
				out.Races = rdet.reports()
				out.Probes["race.accesses-checked"] += run.RaceAccesses()
			}
			// everything has been recorded: let goroutines that sit in a stalled stub unwind
			// (the stub reports an error), so that they do not stay in the process for ever
			run.ReleaseStalled()
		})
	}()
	out.WallNS = time.Since(t0).Nanoseconds()
	if atEnd {
		// what happened after the release is not part of the run
		out.Returned, out.Err = retAtEnd, errAtEnd
		wr.buf, wr.segs, wr.n = wr.buf[:bufAtEnd], wr.segs[:segsAtEnd], wnAtEnd
		cb.visits = cb.visits[:visitsAtEnd]
		if len(cb.ptrs) > visitsAtEnd {
			cb.ptrs = cb.ptrs[:visitsAtEnd]
		}
	}
	collect(out, rd, wr, cb, d)
	if out.Returned && out.Err == nil {
		var late []string
		if wr.n > out.WritesAtReturn {
			late = append(late, fmt.Sprintf("%d write(s)", wr.n-out.WritesAtReturn))
		}
		if len(cb.visits) > out.VisitsAtReturn {
			late = append(late, fmt.Sprintf("%d callback(s)", len(cb.visits)-out.VisitsAtReturn))
		}
		if m := countMut(out.DiskOps); m > out.MutOpsAtReturn {
			late = append(late, fmt.Sprintf("%d mutating disk operation(s)", m-out.MutOpsAtReturn))
		}
		out.LateEffects = strings.Join(late, ", ")
	}
	if run != nil {
		out.Steps = run.Steps
		out.StepCap = run.StepCapHit
		out.TraceHash, out.OrderHash = run.TraceHash(), run.OrderHash()
		out.Trace = run.Trace
		for k, v := range run.Probes {
			out.Probes[k] += v
		}
		out.Tasks = len(infos)
		for _, ti := range infos {
			if ti.Panic != "" {
				out.Panics = append(out.Panics, PanicInfo{Task: ti.ID, Site: ti.PanicSite, Value: ti.Panic})
			}
			if ti.State != "done" {
				if ti.ID == "0" {
					out.Hang = true
				} else {
					out.Leaks = append(out.Leaks, ti)
				}
			}
		}
		if !out.Returned && !out.Hang && len(out.Panics) == 0 {
			out.Hang = true
		}
	}
	return out
}

func classOfSite(site string) string {
	parts := strings.Split(site, ":")
	if len(parts) >= 3 {
		return parts[0] + ":" + strings.Join(parts[2:], ":")
	}
	return site
}

// ---- jail and snapshots ---------------------------------------------------------------------------

var jailBase string
var jailSeq atomic.Int64

func initJailBase() {
	base := os.Getenv("VERIF_JAIL_BASE")
	if base == "" {
		base = "/dev/shm"
		if st, err := os.Stat(base); err != nil || !st.IsDir() {
			base = os.TempDir()
		}
	}
	jailBase = filepath.Join(base, fmt.Sprintf("gtree-sim-%d", os.Getpid()))
	os.RemoveAll(jailBase)
	if err := os.MkdirAll(jailBase, 0o755); err != nil {
		panic(err)
	}
}

func cleanupJailBase() {
	if jailBase != "" {
		os.RemoveAll(jailBase)
	}
}

// newJail creates a fresh per-case directory <base>/<n>/j and returns it.
func newJail() string {
	if jailBase == "" {
		initJailBase()
	}
	j := filepath.Join(jailBase, fmt.Sprint(jailSeq.Add(1)), "j")
	if err := os.MkdirAll(j, 0o755); err != nil {
		panic(err)
	}
	return j
}

func removeJail(j string) {
	os.RemoveAll(filepath.Dir(j))
}

// Entry is one filesystem entry of a snapshot.
type Entry struct {
	Path string // relative to the snapshot root, slash separated
	Kind string // d | f | l | ?
	Size int64
	Mode uint32 // permission bits
	Sum  uint64 // content hash of regular files (up to 64 KiB)
}

func snapshot(root string) []Entry {
	var out []Entry
	filepath.Walk(root, func(p string, info os.FileInfo, err error) error {
		if err != nil {
			return nil
		}
		rel, _ := filepath.Rel(root, p)
		if rel == "." {
			return nil
		}
		e := Entry{Path: filepath.ToSlash(rel)}
		switch {
		case info.IsDir():
			e.Kind = "d"
		case info.Mode().IsRegular():
			e.Kind = "f"
			e.Size = info.Size()
			if e.Size > 0 && e.Size <= 64<<10 {
				if b, err := os.ReadFile(p); err == nil {
					e.Sum = hashStr(string(b))
				}
			}
		case info.Mode()&os.ModeSymlink != 0:
			e.Kind = "l"
		default:
			e.Kind = "?"
		}
		e.Mode = uint32(info.Mode().Perm())
		out = append(out, e)
		return nil
	})
	sort.Slice(out, func(i, j int) bool { return out[i].Path < out[j].Path })
	return out
}

func snapString(es []Entry) string {
	var sb strings.Builder
	for _, e := range es {
		fmt.Fprintf(&sb, "%s:%s:%d\n", e.Kind, e.Path, e.Size) // mode and content hash are compared by the checks that care (C06, C08)
	}
	return sb.String()
}

func runtimeStack(buf []byte) int {
	return copy(buf, []byte(stackTrace()))
}

func sameErrClass(a, b error) bool { return (a == nil) == (b == nil) }

var _ = bytes.Equal
var _ = errors.Is

func countMut(ops []simfs.OpRec) int {
	n := 0
	for _, o := range ops {
		if o.Mutating {
			n++
		}
	}
	return n
}

// snapStringFull includes permission bits and content hashes.
func snapStringFull(es []Entry) string {
	var sb strings.Builder
	for _, e := range es {
		fmt.Fprintf(&sb, "%s:%s:%d:%o:%x\n", e.Kind, e.Path, e.Size, e.Mode, e.Sum)
	}
	return sb.String()
}

// effectiveBranch returns the four branch strings an operation ends up with (documented
// defaults for whatever is not set).
func effectiveBranch(op Op) []string {
	def := []string{"└──", "    ", "├──", "│   "}
	if len(op.Branch) != 4 {
		return nil
	}
	switch op.BranchOnly {
	case "last":
		return []string{op.Branch[0], op.Branch[1], def[2], def[3]}
	case "mid":
		return []string{def[0], def[1], op.Branch[2], op.Branch[3]}
	}
	return op.Branch
}

// withSentinel copies the options into a slice with spare capacity whose first spare
// element holds a known option: a library that appends to the caller's slice instead of
// copying it overwrites that element (and with it, in real programs, the caller's data).
func withSentinel(opts []gtree.Option) []gtree.Option {
	res := make([]gtree.Option, len(opts), len(opts)+3)
	copy(res, opts)
	res[:cap(res)][len(opts)] = sentinelOpt
	return res
}

// one value, compared by its code pointer (a second call of the constructor may be inlined
// into a different copy of the function literal)
var sentinelOpt = gtree.WithNoUseIterOfSimpleOutput()

func sentinelIntact(opts []gtree.Option) bool {
	full := opts[:cap(opts)]
	if len(full) <= len(opts) || full[len(opts)] == nil {
		return len(full) <= len(opts)
	}
	return reflect.ValueOf(full[len(opts)]).Pointer() == reflect.ValueOf(sentinelOpt).Pointer()
}

// tampered describes what the library did to the caller's own slices, "" if nothing.
func tampered(opts []gtree.Option, extsGiven, extsCopy []string) string {
	if !sentinelIntact(opts) {
		return "the library wrote into the spare capacity of the caller's option slice"
	}
	if len(extsGiven) != len(extsCopy) {
		return "caller's extension slice changed length"
	}
	for i := range extsGiven {
		if extsGiven[i] != extsCopy[i] {
			return fmt.Sprintf("the library changed the caller's extension slice: element %d was %q and is %q", i, extsCopy[i], extsGiven[i])
		}
	}
	return ""
}
