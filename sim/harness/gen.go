package simharness

import (
	"strings"
)

// MNode is the reference model of a tree: names and child order, nothing else.
type MNode struct {
	Name string
	Kids []*MNode
}

func (n *MNode) Count() int {
	c := 1
	for _, k := range n.Kids {
		c += k.Count()
	}
	return c
}

func (n *MNode) kid(name string) *MNode {
	for _, k := range n.Kids {
		if k.Name == name {
			return k
		}
	}
	return nil
}

// Paths returns the slash-joined paths of all nodes in pre-order.
func (n *MNode) Paths(prefix string) []string {
	p := n.Name
	if prefix != "" {
		p = prefix + "/" + n.Name
	}
	out := []string{p}
	for _, k := range n.Kids {
		out = append(out, k.Paths(p)...)
	}
	return out
}

func (n *MNode) Clone() *MNode {
	c := &MNode{Name: n.Name}
	for _, k := range n.Kids {
		c.Kids = append(c.Kids, k.Clone())
	}
	return c
}

func (n *MNode) String() string {
	if len(n.Kids) == 0 {
		return n.Name
	}
	parts := make([]string, len(n.Kids))
	for i, k := range n.Kids {
		parts[i] = k.String()
	}
	return n.Name + "(" + strings.Join(parts, ",") + ")"
}

func forestString(f []*MNode) string {
	parts := make([]string, len(f))
	for i, r := range f {
		parts[i] = r.String()
	}
	return strings.Join(parts, " | ")
}

// ---- names ---------------------------------------------------------------------------------

const (
	alphaPlain   = iota // short ASCII names, some with file extensions
	alphaFS             // plain + Unicode + blanks inside, always valid single path elements
	alphaHostile        // bullets, leading/trailing blanks, quotes, '#', ':' (still no newline, non-empty)
)

var namesPlain = []string{"a", "b", "c", "d", "e", "f", "dir", "src", "main.go", "x.txt", "Makefile", "README.md", "lib", "t.go", "x.gz", "a.tar.gz", "profile", "cmd", "cmd.go"}
var namesFS = []string{"a", "b", "c", "日本", "é", "x y", "ü.txt", "🌲", "a.b.c", "Ω", "src", "main.go", "k", "Makefile",
	"A", "É", "Main.go", " lead", "100%", "%s", "50%off.txt", "a b  c", "-dash", "~tilde", "@at", "x.TXT", "trail ", "dot.", "UPPER.GO", "target", "j", "back\\slash", "C#", "#hash", "a#b", "<tag>", "a&b", "x>y", "a[1].txt", "a1.txt", "x.c?", "x.cc", "star*"}
var namesHostile = []string{"a", "b", "a-b", "* x", " lead", "trail ", "x#y", "a:b", `q"uote`, `back\slash`, "- dash", "+p", "é", "{}", "[k]", "a  b", "c", "<tag>", "a&b", "x>y", "a/b", "tab\there", "%d"}

func genName(c *Ctx, alpha int) string {
	switch alpha {
	case alphaFS:
		return namesFS[c.Draw(len(namesFS))]
	case alphaHostile:
		return namesHostile[c.Draw(len(namesHostile))]
	}
	return namesPlain[c.Draw(len(namesPlain))]
}

// ---- forests ---------------------------------------------------------------------------------

type forestOpts struct {
	maxRoots      int
	maxExtra      int // extra nodes per root
	alpha         int
	distinctRoots bool
	maxDepth      int
	maxFan        int
	shapes        bool // allow deep chains and wide fans now and then
}

func genTree(c *Ctx, rootName string, o forestOpts) *MNode {
	root := &MNode{Name: rootName}
	if o.shapes && c.Chance(1, 12) {
		// unusual shapes: a deep chain or a wide fan
		if c.Draw(2) == 0 {
			n := root
			for i := 0; i < 8+c.Draw(90); i++ {
				k := &MNode{Name: genName(c, o.alpha)}
				n.Kids = []*MNode{k}
				n = k
			}
		} else {
			for i := 0; i < 6+c.Draw(10); i++ {
				root.Kids = append(root.Kids, &MNode{Name: genName(c, o.alpha) + strings.Repeat("'", i)})
			}
		}
		return root
	}
	type slot struct {
		n     *MNode
		depth int
	}
	nodes := []slot{{root, 1}}
	extra := c.Draw(o.maxExtra + 1)
	for i := 0; i < extra; i++ {
		// candidates that can take a child
		var cand []slot
		for _, s := range nodes {
			if s.depth < o.maxDepth && len(s.n.Kids) < o.maxFan {
				cand = append(cand, s)
			}
		}
		if len(cand) == 0 {
			break
		}
		// bias to the most recent node (deep chains) or uniform
		var p slot
		if c.Draw(3) == 0 {
			p = cand[len(cand)-1]
		} else {
			p = cand[c.Draw(len(cand))]
		}
		name := genName(c, o.alpha)
		if p.n.kid(name) != nil {
			// unique sibling names in the model: derive a fresh one
			for j := 2; ; j++ {
				nn := name + strings.Repeat("'", j-1)
				if p.n.kid(nn) == nil {
					name = nn
					break
				}
			}
		}
		k := &MNode{Name: name}
		p.n.Kids = append(p.n.Kids, k)
		nodes = append(nodes, slot{k, p.depth + 1})
	}
	return root
}

func genForest(c *Ctx, o forestOpts) []*MNode {
	n := 1 + c.Draw(o.maxRoots)
	var out []*MNode
	used := map[string]bool{}
	for i := 0; i < n; i++ {
		name := genName(c, o.alpha)
		if o.distinctRoots {
			for used[name] {
				name += "_"
			}
		}
		used[name] = true
		out = append(out, genTree(c, name, o))
	}
	return out
}

// ---- spelling ---------------------------------------------------------------------------------

type Spelling struct {
	Unit        string // indentation unit
	UnitPerRoot []string
	Bullets     string // candidate bullets
	FinalNL     bool
	CRLF        bool
	BlankEvery  int // 0: none; k: a blank line drawn with chance 1/k after each line
	SharpRoots  bool
	LeadBlank   int // number of leading blank lines
	Remention   bool // a node with >= 2 children may be written twice among its siblings, each time with part of its children (equally named siblings are one node)
}

func genSpelling(c *Ctx, extended bool) Spelling {
	s := Spelling{FinalNL: true, Bullets: "-"}
	switch c.Pick(4, 2, 2, 1, 1, 1) {
	case 5:
		s.Unit = "\t\t"
	case 0:
		s.Unit = "  "
	case 1:
		s.Unit = "\t"
	case 2:
		s.Unit = "    "
	case 3:
		s.Unit = strings.Repeat(" ", 1+c.Draw(8))
	case 4:
		s.Unit = " "
	}
	if c.Chance(1, 3) {
		s.Bullets = "-*+"
	}
	if c.Chance(1, 5) {
		s.FinalNL = false
	}
	if c.Chance(1, 8) {
		s.CRLF = true
	}
	if c.Chance(1, 4) {
		s.BlankEvery = 2 + c.Draw(4)
	}
	if c.Chance(1, 6) {
		s.Remention = true
	}
	if extended {
		switch c.Pick(4, 2, 2, 2) {
		case 1:
			s.SharpRoots = true
		case 2:
			s.LeadBlank = 1 + c.Draw(2)
		case 3:
			s.UnitPerRoot = []string{"  ", "\t", "    ", "   "}
		}
	}
	return s
}

// genSpellingSimple is genSpelling plus the notations that only simple mode handles alike:
// '#' heading roots and leading blank lines. Heading text is trimmed of blanks and leading
// '#'s by the parser, so root names are adjusted to survive that unchanged.
func genSpellingSimple(c *Ctx, forest []*MNode) Spelling {
	s := genSpelling(c, false)
	switch c.Pick(6, 2, 1) {
	case 1:
		s.SharpRoots = true
		seen := map[string]bool{}
		for _, r := range forest {
			n := strings.TrimLeft(strings.TrimSpace(r.Name), "#")
			n = strings.TrimSpace(n)
			if n == "" {
				n = "h"
			}
			for seen[n] {
				n += "_"
			}
			seen[n] = true
			r.Name = n
		}
	case 2:
		s.LeadBlank = 1 + c.Draw(2)
	}
	return s
}

// spell renders the forest; it returns the document and its per-root parts.
func spell(c *Ctx, forest []*MNode, s Spelling) (doc []byte, parts [][]byte) {
	nl := "\n"
	if s.CRLF {
		nl = "\r\n"
	}
	var all []string
	for ri, root := range forest {
		unit := s.Unit
		if len(s.UnitPerRoot) > 0 {
			unit = s.UnitPerRoot[(ri+c.Draw(len(s.UnitPerRoot)))%len(s.UnitPerRoot)]
		}
		var lines []string
		var walk func(n *MNode, depth int)
		walk = func(n *MNode, depth int) {
			b := string(s.Bullets[c.Draw(len(s.Bullets))])
			if depth == 1 && s.SharpRoots {
				lines = append(lines, "# "+n.Name)
			} else {
				d := depth - 1
				if s.SharpRoots {
					d = depth - 2
				}
				lines = append(lines, strings.Repeat(unit, d)+b+" "+n.Name)
			}
			if s.BlankEvery > 0 && c.Draw(s.BlankEvery) == 0 {
				if c.Draw(2) == 0 {
					lines = append(lines, "")
				} else {
					lines = append(lines, "  ")
				}
			}
			// a child with >= 2 children may be split over two mentions: first mention with the
			// first part of its children, then (after the later siblings) again with the rest
			type later struct {
				n    *MNode
				from int
			}
			var pending []later
			for _, k := range n.Kids {
				if s.Remention && depth >= 1 && len(k.Kids) >= 2 && c.Draw(2) == 0 {
					cut := 1 + c.Draw(len(k.Kids)-1)
					part := &MNode{Name: k.Name, Kids: k.Kids[:cut]}
					walk(part, depth+1)
					pending = append(pending, later{k, cut})
					continue
				}
				walk(k, depth+1)
			}
			for _, p := range pending {
				walk(&MNode{Name: p.n.Name, Kids: p.n.Kids[p.from:]}, depth+1)
			}
		}
		walk(root, 1)
		all = append(all, strings.Join(lines, nl))
	}
	lead := strings.Repeat(nl, s.LeadBlank)
	for i, p := range all {
		t := p
		if i < len(all)-1 || s.FinalNL {
			t += nl
		}
		if i == 0 {
			t = lead + t
		}
		parts = append(parts, []byte(t))
	}
	var d []byte
	for _, p := range parts {
		d = append(d, p...)
	}
	return d, parts
}

// canonicalDoc spells a forest in the plainest notation (two spaces, '-', final newline).
func canonicalDoc(forest []*MNode) []byte {
	var sb strings.Builder
	var walk func(n *MNode, depth int)
	walk = func(n *MNode, depth int) {
		sb.WriteString(strings.Repeat("  ", depth-1) + "- " + n.Name + "\n")
		for _, k := range n.Kids {
			walk(k, depth+1)
		}
	}
	for _, r := range forest {
		walk(r, 1)
	}
	return []byte(sb.String())
}

// ---- malformations -----------------------------------------------------------------------------

var malformNames = []string{"nobullet", "emptytext", "badindent", "mixedindent", "leveljump", "itembeforeroot", "garbage"}

// malform injects one malformation class into part pi of parts (line chosen from the
// stream) and returns the class name. The parts are modified in place.
func malform(c *Ctx, parts [][]byte, unit string) (string, int) {
	pi := c.Draw(len(parts))
	lines := strings.Split(strings.TrimRight(string(parts[pi]), "\n"), "\n")
	li := c.Draw(len(lines))
	// a level jump is the one class simple mode accepts silently (it drops the lines), so both
	// modes return nil and the outputs are compared: drawn more often
	kind := c.Pick(2, 2, 2, 2, 6, 2, 1)
	ind := func(l string) string {
		t := strings.TrimLeft(l, " \t")
		return l[:len(l)-len(t)]
	}
	l := lines[li]
	switch malformNames[kind] {
	case "nobullet":
		lines[li] = ind(l) + "x" + strings.TrimLeft(strings.TrimLeft(l, " \t"), "-*+")
	case "emptytext":
		lines[li] = ind(l) + "-"
		if c.Draw(2) == 1 {
			lines[li] += " "
		}
	case "badindent":
		if len(unit) >= 2 {
			lines[li] = " " + l
		} else {
			lines[li] = "   x" + l
		}
	case "mixedindent":
		if strings.HasPrefix(l, "\t") {
			lines[li] = " " + l
		} else {
			lines[li] = "\t " + l
		}
	case "leveljump":
		lines[li] = unit + unit + l
	case "itembeforeroot":
		lines = append([]string{unit + "- stray"}, lines...)
		li = 0
	case "garbage":
		lines[li] = "\x00\xff not a list"
	}
	parts[pi] = []byte(strings.Join(lines, "\n") + "\n")
	return malformNames[kind], pi
}

func joinParts(parts [][]byte) []byte {
	var d []byte
	for _, p := range parts {
		d = append(d, p...)
	}
	return d
}

// targetDirNames: names for the target directory itself. Nothing in them is special to the
// operating system; a library that expands, trims or escapes them ends up somewhere else.
var targetDirNames = []string{"target", "target", "target", "target", "out$dir", "price-${x}-list", "$HOME", "~user", "with space", "%TEMP%", "tar.get", "-target", "täŕget"}

func genTargetDirName(c *Ctx) string { return targetDirNames[c.Draw(len(targetDirNames))] }
