package simharness

import (
	"errors"
	"fmt"
	"os"
	"path"
	"path/filepath"
	"sort"
	"strings"
	"syscall"

	"github.com/ddddddO/gtree"
)

// ---- shared helpers ------------------------------------------------------------------------------------

func isFileNode(n *MNode, exts []string) bool {
	if len(n.Kids) > 0 {
		return false
	}
	for _, e := range exts {
		if strings.HasSuffix(n.Name, e) {
			return true
		}
	}
	return false
}

// expectedEntries: path -> kind for a forest created under a target.
func expectedEntries(forest []*MNode, exts []string) map[string]string {
	out := map[string]string{}
	var walk func(n *MNode, p string)
	walk = func(n *MNode, p string) {
		if isFileNode(n, exts) {
			out[p] = "f"
		} else {
			out[p] = "d"
		}
		for _, k := range n.Kids {
			walk(k, p+"/"+k.Name)
		}
	}
	for _, r := range forest {
		walk(r, r.Name)
	}
	return out
}

func snapMap(es []Entry) map[string]Entry {
	m := map[string]Entry{}
	for _, e := range es {
		m[e.Path] = e
	}
	return m
}

func mutatingOps(out *Outcome) []string {
	var l []string
	for _, o := range out.DiskOps {
		if o.Mutating {
			l = append(l, fmt.Sprintf("#%d %s %s", o.Idx, o.Op, o.Path))
		}
	}
	return l
}

// ---- C06 ---------------------------------------------------------------------------------------------

func init() {
	register(&Property{
		ID:    "C06",
		Level: "fault_enumeration",
		Rule: "one case = (forest with distinct root names, extension list, target-directory state {empty, missing, some roots pre-existing as file or directory, target below a regular file, an over-long name}, From-Markdown or From-Root, simple or massive). " +
			"The fault-free run lists the n disk operations of the call; then a failure is injected at EVERY operation index 0..n-1 - simple mode: x {ENOSPC, EACCES, EIO, EROFS} x {transient, persistent}, massive mode: one drawn errno and persistence per index under a seeded schedule. " +
			"Evaluations count single mkdir executions. non-trivial = at least 3 nodes and (a fault fired or the target state is not empty); distinct = different (forest, options, state, fault) hash",
		Case:  caseC06,
		Real:  []string{"gtree + gtree/markdown (instrumented copy of /repo working tree): simple and massive mkdir paths", "the real filesystem (tmpfs jail): os.Stat, os.MkdirAll, os.Create, Close really executed"},
		Stubs: []string{"filesystem shim: records every operation, injects errno at operation index k, parks before every operation in massive mode", "goroutine scheduler (massive arm)"},
	})
}

type c06state struct {
	kind     string
	pre      map[string]string // root name -> d|f
	longName bool
}

func caseC06(c *Ctx) {
	massive := pickArm(c, []string{"simple", "massive"}, 6, 4) == "massive"
	mode := "simple"
	if massive {
		mode = "massive"
	}
	op := Op{Kind: "mkdir", Massive: massive}
	op.Exts = extSets[c.Draw(len(extSets))]
	if c.Chance(1, 4) {
		op.FromRoot = true
	}
	if c.Chance(1, 10) {
		op.Alias = true
	}
	if c.Chance(1, 8) {
		op.Decoys = true
	}
	if c.Chance(1, 10) {
		op.NilOption = true
	}
	fo := forestOpts{maxRoots: 4, maxExtra: 6, alpha: []int{alphaPlain, alphaFS}[c.Draw(2)], distinctRoots: true, maxDepth: 4, maxFan: 3, shapes: true}
	if op.FromRoot {
		fo.maxRoots = 1
	} else if massive && c.Chance(1, 4) {
		// more roots than workers: one worker creates several roots
		fo.maxRoots, fo.maxExtra = 16, 2
	}
	forest := genForest(c, fo)
	if fo.maxRoots == 16 {
		for len(forest) < 12 {
			forest = append(forest, genTree(c, fmt.Sprintf("r%d", len(forest)), fo))
		}
	}
	sp := genSpelling(c, false)
	if !massive {
		sp = genSpellingSimple(c, forest) // may adjust root names: before anything refers to them
	}
	st := c06state{pre: map[string]string{}}
	st.kind = []string{"empty", "missing", "preexisting", "below-file", "long-name", "deep-path"}[c.Pick(5, 2, 3, 1, 1, 1)]
	if !op.FromRoot && st.kind == "preexisting" && c.Chance(1, 5) {
		// MkdirFromMarkdown accepts a root written as a path; its existence check must look at that path
		forest[0].Name = []string{"lib/core", "./assets", "a/b/c"}[c.Draw(3)]
		c.st.Count("root-written-as-a-path")
	}
	switch st.kind {
	case "preexisting":
		for _, r := range forest {
			if c.Chance(1, 2) {
				st.pre[r.Name] = []string{"d", "f", "l"}[c.Pick(3, 3, 1)]
			}
		}
		if strings.Contains(forest[0].Name, "/") {
			st.pre = map[string]string{forest[0].Name: "d"}
		}
		if len(st.pre) == 0 {
			st.pre[forest[0].Name] = "d"
		}
	case "long-name":
		// a leaf with a 300-byte name below the first root
		forest[0].Kids = append(forest[0].Kids, &MNode{Name: strings.Repeat("n", 300)})
	case "deep-path":
		// a chain whose relative path is longer than 255 bytes while every name is short
		// enough: the operating system accepts it
		n := forest[0]
		for i := 0; i < 9+c.Draw(6); i++ {
			k := &MNode{Name: fmt.Sprintf("level%02d-%s", i, strings.Repeat("d", 20+c.Draw(15)))}
			n.Kids = append(n.Kids, k)
			n = k
		}
	}
	restricted := c.Chance(1, 3)
	dotdot := c.Chance(1, 8)
	tname := genTargetDirName(c)
	c.Scenario["target_directory_name"] = tname
	doc, _ := spell(c, forest, sp)
	nNodes := 0
	for _, r := range forest {
		nNodes += r.Count()
	}
	c.Scenario["op"] = op.String()
	c.Scenario["forest"] = forestString(forest)
	c.Scenario["state"] = st.kind
	c.Scenario["unusual_permissions"] = restricted
	c.Scenario["preexisting"] = st.pre
	c.st.Count("mode:" + mode)
	c.st.Count("state:" + st.kind)

	var jails []string
	defer func() {
		for _, j := range jails {
			removeJail(j)
		}
	}()
	prepare := func() *DiskPlan {
		j := newJail()
		jails = append(jails, j)
		target := filepath.Join(j, tname)
		switch st.kind {
		case "missing":
			target = filepath.Join(j, "not", "yet", "there")
		case "below-file":
			os.WriteFile(filepath.Join(j, "plainfile"), []byte("x"), 0o644)
			target = filepath.Join(j, "plainfile", "sub")
		default:
			os.MkdirAll(target, 0o755)
			if dotdot {
				// the same directory, written with a ".." element
				os.MkdirAll(filepath.Join(j, "side"), 0o755)
				target = j + "/side/../" + tname
			}
			os.WriteFile(filepath.Join(target, "zz-bystander.txt"), []byte("keep"), 0o644)
			os.MkdirAll(filepath.Join(target, "zz-bystander-dir", "x"), 0o755)
		}
		if restricted && st.kind != "missing" && st.kind != "below-file" {
			// unusual permissions on what exists already: they must survive the call
			os.Chmod(target, 0o700)
			os.Chmod(filepath.Join(target, "zz-bystander-dir"), 0o750)
			os.Chmod(filepath.Join(target, "zz-bystander.txt"), 0o600)
		}
		for n, k := range st.pre {
			p := filepath.Join(target, n)
			switch k {
			case "d":
				os.MkdirAll(filepath.Join(p, "old"), 0o755)
			case "l":
				os.Symlink("/nonexistent/elsewhere", p) // a dangling symlink: the name is taken
			default:
				os.WriteFile(p, []byte("old"), 0o644)
			}
		}
		return &DiskPlan{Jail: j, Target: target, FailAt: -1}
	}
	// drawn once per case: the enumeration of fault indices below must not consume the stream
	slowReader, slowAt := massive && !op.FromRoot && c.Chance(1, 5), c.Draw(3)
	if slowReader {
		c.st.Count("massive.slow-reader-configured")
	}
	exec := func(d *DiskPlan, name string) (*Outcome, []Entry, []Entry) {
		before := snapshot(d.Jail)
		env := &Env{Doc: doc, Reader: noReaderFault, Writer: noWriterFault, Cb: noCbFault, Disk: d}
		if op.FromRoot {
			env.Tree = forest[0]
		}
		c.st.Count("evaluations")
		var out *Outcome
		if massive {
			if slowReader {
				// the document arrives slowly (one Read takes 30 s of simulated time)
				env.Reader.Slow, env.Reader.SlowAt = true, slowAt
			}
			env.MaxSteps = 60000
			out = c.Sim(name, op, env)
			if out.Probes["reader.slow-read"] > 0 {
				c.st.Count("fault.fired:slow-reader(30s simulated)")
			}
		} else {
			out = c.Direct(op, env)
		}
		return out, before, snapshot(d.Jail)
	}
	want := expectedEntries(forest, op.Exts)

	// judge one execution
	judge := func(out *Outcome, d *DiskPlan, before, after []Entry, fault string, fail func(sig, f string, a ...any)) {
		if len(out.Panics) > 0 || out.Hang || out.StepCap {
			c.st.Count("no-result(not judged here)")
			return
		}
		if out.LateEffects != "" {
			fail("C06:effects-after-nil-return:"+mode, "the call returned nil and afterwards its goroutines still performed %s", out.LateEffects)
		}
		rel, _ := filepath.Rel(d.Jail, filepath.Clean(d.Target))
		rel = filepath.ToSlash(rel)
		bm, am := snapMap(before), snapMap(after)
		// nothing that existed before may change or disappear
		for p, e := range bm {
			a, ok := am[p]
			if !ok || a.Kind != e.Kind || a.Mode != e.Mode || (e.Kind == "f" && (a.Size != e.Size || a.Sum != e.Sum)) {
				fail("C06:preexisting-entry-changed:"+mode, "%s (%s, size %d, mode %o) existed before the call and is now %+v (present=%v)", p, e.Kind, e.Size, e.Mode, a, ok)
			}
		}
		var newEntries []string
		for p := range am {
			if _, ok := bm[p]; !ok {
				newEntries = append(newEntries, p)
			}
		}
		sort.Strings(newEntries)
		injected := out.DiskFired > 0
		realFail := ""
		for _, o := range out.DiskOps {
			if o.Err != "" && !o.Injected && o.Op != "stat" {
				realFail = fmt.Sprintf("#%d %s %s: %s", o.Idx, o.Op, o.Path, o.Err)
			}
		}
		opened, closed := 0, 0
		for _, o := range out.DiskOps {
			switch o.Op {
			case "create", "openfile", "open", "createtemp":
				if o.Err == "" {
					opened++
				}
			case "close":
				closed++
			}
		}
		if opened > closed && out.Returned {
			fail("C06:file-left-open:"+mode, "%d files were opened and only %d closed when the call returned %v", opened, closed, out.Err)
		}
		if (injected || realFail != "") && out.Err == nil {
			fail("C06:failed-operation-reported-as-success:"+mode, "a filesystem operation failed (%s %s) and the call returned nil", fault, realFail)
		}
		onlyLinks := false
		for _, k := range st.pre {
			if k == "l" {
				onlyLinks = true // at least one root name is taken by a dangling symlink
			}
		}
		if onlyLinks && !injected {
			// os.Stat follows the dangling link and reports "not exist": the library goes on and
			// the operating system refuses; what matters is that this is not reported as success
			// and that nothing that existed is changed
			if out.Err == nil {
				fail("C06:failed-operation-reported-as-success:"+mode, "a root name is taken by a dangling symlink; the call returned nil\nnew entries: %v", newEntries)
			}
			return
		}
		if len(st.pre) > 0 && !injected {
			if !errors.Is(out.Err, gtree.ErrExistPath) {
				fail("C06:existing-root-not-rejected:"+mode, "roots %v already exist; the call returned %v", st.pre, out.Err)
			}
			if len(newEntries) > 0 {
				fail("C06:fs-changed-despite-existing-root:"+mode, "roots %v already exist, the call returned %v, but it created %v", st.pre, out.Err, newEntries)
			}
			if m := mutatingOps(out); len(m) > 0 && !massive {
				fail("C06:mutating-op-despite-existing-root:"+mode, "mutating operations were issued: %v", m)
			}
			return
		}
		if out.Err != nil {
			if st.kind == "empty" || st.kind == "missing" || st.kind == "deep-path" {
				if !injected && realFail == "" {
					fail("C06:unexplained-error:"+mode, "nothing pre-exists and no filesystem operation failed, but the call returned %v", out.Err)
				}
			}
			return
		}
		// success: the new entries are exactly the node paths with the right kinds
		got := map[string]string{}
		for _, p := range newEntries {
			if p == rel || strings.HasPrefix(rel, p+"/") {
				continue // the (formerly missing) target directory and its parents
			}
			r := strings.TrimPrefix(p, rel+"/")
			if r == p {
				fail("C06:created-outside-target:"+mode, "new entry %s is not below the target %s", p, rel)
			}
			got[r] = am[p].Kind
			if am[p].Kind == "f" && am[p].Size != 0 {
				fail("C06:file-not-empty:"+mode, "%s has size %d", p, am[p].Size)
			}
		}
		for p, k := range want {
			if got[p] != k {
				fail("C06:wrong-entry:"+mode, "node path %s: expected kind %q, found %q (exts %v)\nnew entries: %v", p, k, got[p], op.Exts, newEntries)
			}
		}
		for p, k := range got {
			if _, ok := want[p]; !ok {
				fail("C06:extra-entry:"+mode, "%s (%s) was created but is not a node path", p, k)
			}
		}
	}

	if st.kind == "empty" && !massive && c.Chance(1, 6) {
		c06RelativeTarget(c, op, forest, doc, want)
		return
	}
	// ---- fault-free run
	d0 := prepare()
	base, b0, a0 := exec(d0, "base")
	judge(base, d0, b0, a0, "", func(sig, f string, a ...any) { c.Failf(sig, f, a...) })
	nOps := len(base.DiskOps)
	if nNodes >= 3 && st.kind != "empty" {
		c.st.Distinct("nontrivial", mix(hashStr(forestString(forest)+op.String()+st.kind+fmt.Sprint(st.pre)), base.TraceHash))
	}
	if st.kind == "below-file" || st.kind == "long-name" {
		c.st.Count("real-refusal-runs")
		return
	}
	// ---- a failure at every operation index
	type flt struct {
		i      int
		errno  syscall.Errno
		sticky bool
	}
	var faults []flt
	if i, ok := c.Param("i"); ok {
		e, _ := c.Param("errno")
		s, _ := c.Param("sticky")
		faults = []flt{{i, errnosAll[e%len(errnosAll)], s == 1}}
	} else if !massive {
		for i := 0; i < nOps; i++ {
			for _, e := range errnos {
				faults = append(faults, flt{i, e, false}, flt{i, e, true})
			}
			// errnos the code might be tempted to tolerate
			faults = append(faults, flt{i, syscall.EEXIST, false}, flt{i, syscall.ENOTDIR, false})
		}
	} else {
		for i := 0; i < nOps; i++ {
			h := mix(c.Seed, uint64(i))
			faults = append(faults, flt{i, errnos[h%4], (h>>8)%2 == 1})
		}
	}
	c.st.Add("enumerated.op-indices", nOps)
	for _, f := range faults {
		d := prepare()
		d.FailAt, d.Errno, d.Sticky = f.i, f.errno, f.sticky
		out, b, a := exec(d, fmt.Sprintf("f%d", f.i))
		desc := fmt.Sprintf("%v at op #%d sticky=%v", f.errno, f.i, f.sticky)
		if nNodes >= 3 && out.DiskFired > 0 {
			c.st.Distinct("nontrivial", mix(hashStr(forestString(forest)+op.String()+st.kind+desc), out.TraceHash))
		}
		judge(out, d, b, a, desc, func(sig, fm string, args ...any) {
			c.SetParam("i", f.i)
			c.SetParam("errno", indexErrno(f.errno))
			sv := 0
			if f.sticky {
				sv = 1
			}
			c.SetParam("sticky", sv)
			c.Scenario["fault"] = desc
			c.Failf(sig, fm, args...)
		})
		removeJail(d.Jail)
	}
	c.st.Sample(mode+"/"+st.kind, map[string]any{"mode": mode, "op": op.String(), "forest": forestString(forest), "state": st.kind, "disk_ops_fault_free": nOps, "faults_enumerated": len(faults)})
}

var errnosAll = append(append([]syscall.Errno(nil), errnos...), syscall.EEXIST, syscall.ENOTDIR)

func indexErrno(e syscall.Errno) int {
	for i, x := range errnosAll {
		if x == e {
			return i
		}
	}
	return 0
}

// ---- C08 ---------------------------------------------------------------------------------------------

func init() {
	register(&Property{
		ID:    "C08",
		Level: "exploration",
		Rule: "one case = a history on a model directory: optional Mkdir(T, exts) (possibly interrupted by an injected disk fault, leaving a partial tree), external edits (remove node paths, add extra files/directories at any depth), then Verify(T' , strict or not) From-Markdown or From-Root, simple or massive, optionally under injected read faults. " +
			"Oracle from an independent scan of the directory against the model tree; 'never mutates' observed at the disk seam. " +
			"non-trivial = the directory differs from the tree (missing or extra entries) or was produced by Mkdir; distinct = different (tree, directory state, options, schedule) hash",
		Case:  caseC08,
		Real:  []string{"gtree + gtree/markdown (instrumented copy of /repo working tree): simple and massive verify and mkdir paths", "the real filesystem (tmpfs jail), io/fs.WalkDir"},
		Stubs: []string{"filesystem shim: records every operation (mutating or not), injects errno into Mkdir (partial trees) and into Verify's reads", "goroutine scheduler (massive arm)"},
	})
}

func parseVerifyErr(msg, target string) (extra, missing []string, ok bool) {
	cur := ""
	for _, l := range strings.Split(msg, "\n") {
		switch {
		case l == "Extra paths exist:":
			cur = "e"
		case l == "Required paths does not exist:":
			cur = "m"
		case strings.HasPrefix(l, "\t") && cur != "":
			p := strings.TrimPrefix(l, "\t")
			rel, err := filepath.Rel(target, p)
			if err != nil {
				return nil, nil, false
			}
			if cur == "e" {
				extra = append(extra, filepath.ToSlash(rel))
			} else {
				missing = append(missing, filepath.ToSlash(rel))
			}
		default:
			return nil, nil, false
		}
	}
	sort.Strings(extra)
	sort.Strings(missing)
	return extra, missing, true
}

func caseC08(c *Ctx) {
	massive := pickArm(c, []string{"simple", "massive"}, 6, 4) == "massive"
	mode := "simple"
	if massive {
		mode = "massive"
	}
	op := Op{Kind: "verify", Massive: massive, Strict: c.Draw(2) == 1}
	if c.Chance(1, 4) {
		op.FromRoot = true
	}
	if c.Chance(1, 10) {
		op.Alias = true
	}
	if c.Chance(1, 8) {
		op.Decoys = true
	}
	if c.Chance(1, 10) {
		op.NilOption = true
	}
	fo := forestOpts{maxRoots: 3, maxExtra: 6, alpha: []int{alphaPlain, alphaFS}[c.Draw(2)], distinctRoots: true, maxDepth: 4, maxFan: 3, shapes: true}
	if op.FromRoot {
		fo.maxRoots = 1
	}
	manyRoots := !op.FromRoot && c.Chance(1, 8)
	if manyRoots {
		fo.maxRoots, fo.maxExtra = 16, 2
	}
	forest := genForest(c, fo)
	for manyRoots && len(forest) < 12 {
		forest = append(forest, genTree(c, fmt.Sprintf("r%d", len(forest)), fo))
	}
	if c.Chance(1, 15) {
		// a root named "." stands for the target directory itself
		forest[0].Name = "."
		c.st.Count("root-named-dot")
	}
	if !op.FromRoot && !manyRoots && c.Chance(1, 8) {
		// the same root written twice in a row, each time with children of its own: every
		// occurrence is a root of the forest and is verified
		i := c.Draw(len(forest))
		twin := genTree(c, forest[i].Name, fo)
		twin.Kids = append(twin.Kids, &MNode{Name: "only-in-second-occurrence"})
		forest = append(forest[:i+1], append([]*MNode{twin}, forest[i+1:]...)...)
		op.Strict = false // (what counts as an extra entry below a root that is written twice is not settled by the statement)
		c.st.Count("same-root-twice-in-a-row")
	}
	exts := extSets[c.Draw(len(extSets))]
	j := newJail()
	defer removeJail(j)
	tname := genTargetDirName(c)
	target := filepath.Join(j, tname)
	if c.Chance(1, 5) {
		target = filepath.Join(j, "deep", "er", tname)
	}
	hist := []string{}
	nontrivial := false

	// ---- step 1: how the directory came to be
	origin := []string{"mkdir", "mkdir-faulted", "subset", "nothing", "target-missing", "target-is-file"}[c.Pick(8, 4, 6, 2, 2, 1)]
	switch origin {
	case "target-missing":
		hist = append(hist, "the target directory does not exist")
	case "target-is-file":
		os.MkdirAll(filepath.Dir(target), 0o755)
		os.WriteFile(target, []byte("not a directory"), 0o644)
		hist = append(hist, "the target directory is a regular file")
	default:
		os.MkdirAll(target, 0o755)
	}
	mkOp := Op{Kind: "mkdir", Exts: exts, Massive: c.Chance(1, 3), FromRoot: op.FromRoot}
	doc := canonicalDoc(forest)
	justMade := false
	switch origin {
	case "mkdir", "mkdir-faulted":
		d := &DiskPlan{Jail: j, Target: target, FailAt: -1}
		if origin == "mkdir-faulted" {
			d.FailAt, d.Errno, d.Sticky, d.OnlyMut = 1+c.Draw(8), errnos[c.Draw(len(errnos))], c.Draw(2) == 1, true
		}
		env := &Env{Doc: doc, Reader: noReaderFault, Writer: noWriterFault, Cb: noCbFault, Disk: d}
		if mkOp.FromRoot {
			env.Tree = forest[0]
		}
		var mo *Outcome
		if mkOp.Massive {
			mo = c.Sim("mkdir", mkOp, env)
		} else {
			mo = c.Direct(mkOp, env)
		}
		hist = append(hist, fmt.Sprintf("%s -> %s (faults fired: %d)", mkOp, errStr(mo.Err), mo.DiskFired))
		justMade = mo.Err == nil && mo.DiskFired == 0 && len(mo.Panics) == 0 && !mo.Hang
		nontrivial = true
	case "subset":
		for _, r := range forest {
			for _, p := range r.Paths("") {
				if c.Draw(4) != 0 {
					os.MkdirAll(filepath.Join(target, p), 0o755)
				}
			}
		}
		hist = append(hist, "external: created a subset of the node paths")
	}
	// ---- step 1b: now and then the same Verify call was made before, on the directory as it
	// was then; afterwards the directory may be removed and made anew under the same name
	if origin != "target-missing" && origin != "target-is-file" && c.Chance(1, 6) {
		env0 := &Env{Doc: doc, Reader: noReaderFault, Writer: noWriterFault, Cb: noCbFault, Disk: &DiskPlan{Jail: j, Target: target, FailAt: -1}}
		if op.FromRoot {
			env0.Tree = forest[0]
		}
		if op.Massive {
			env0.MaxSteps = 60000
			c.Sim("earlier", op, env0) // (real goroutines of an un-simulated massive call may outlive it by a moment)
		} else {
			c.Direct(op, env0)
		}
		hist = append(hist, "an earlier Verify call with the same options (result ignored)")
		c.st.Count("earlier-verify-call")
		if c.Chance(1, 2) {
			os.RemoveAll(target)
			os.MkdirAll(target, 0o755)
			for _, r := range forest {
				for _, p := range r.Paths("") {
					if c.Draw(3) != 0 {
						os.MkdirAll(filepath.Join(target, p), 0o755)
					}
				}
			}
			justMade = false
			hist = append(hist, "external: rm -r of the target directory, then made anew with a subset of the node paths")
		}
	}
	// ---- step 2: external edits
	edits := 0
	if !justMade || c.Chance(1, 2) {
		edits = c.Draw(4)
	}
	if origin == "target-missing" || origin == "target-is-file" {
		edits = 0
	}
	for e := 0; e < edits; e++ {
		justMade = false
		all := []string{}
		for _, r := range forest {
			all = append(all, r.Paths("")...)
		}
		p := all[c.Draw(len(all))]
		switch c.Draw(6) {
		case 0:
			os.RemoveAll(filepath.Join(target, p))
			hist = append(hist, "external: rm -r "+p)
		case 1:
			x := filepath.Join(target, p, fmt.Sprintf("extra%d", e))
			if fi, err := os.Stat(filepath.Join(target, p)); err == nil && fi.IsDir() {
				os.MkdirAll(x, 0o755)
				hist = append(hist, "external: mkdir "+p+"/extra")
			}
		case 2:
			if fi, err := os.Stat(filepath.Join(target, p)); err == nil && fi.IsDir() {
				os.WriteFile(filepath.Join(target, p, fmt.Sprintf("extra%d.txt", e)), []byte("x"), 0o644)
				hist = append(hist, "external: touch "+p+"/extra.txt")
			}
		case 3:
			os.MkdirAll(filepath.Join(target, fmt.Sprintf("unrelated%d", e), "sub"), 0o755)
			hist = append(hist, "external: mkdir unrelated (outside every root)")
		case 4:
			if path.Clean(p) == "." {
				break // that would turn the target directory itself into a file
			}
			os.RemoveAll(filepath.Join(target, p))
			if os.MkdirAll(filepath.Dir(filepath.Join(target, p)), 0o755) == nil {
				os.WriteFile(filepath.Join(target, p), []byte("now a file"), 0o644)
				hist = append(hist, "external: replaced "+p+" by a regular file")
			}
		case 5:
			if fi, err := os.Stat(filepath.Join(target, p)); err == nil && fi.IsDir() {
				os.Symlink("/nonexistent-target", filepath.Join(target, p, fmt.Sprintf("link%d", e)))
				hist = append(hist, "external: dangling symlink under "+p)
			}
		}
	}
	// ---- step 3: the tree to verify (the same, or edited)
	vforest := forest
	if c.Chance(1, 4) {
		vforest = make([]*MNode, len(forest))
		for i, r := range forest {
			vforest[i] = r.Clone()
		}
		r := vforest[c.Draw(len(vforest))]
		if c.Draw(2) == 0 || len(r.Kids) == 0 {
			r.Kids = append(r.Kids, &MNode{Name: "added-node"})
			hist = append(hist, "tree: added a node under root "+r.Name)
		} else {
			r.Kids = r.Kids[:len(r.Kids)-1]
			hist = append(hist, "tree: removed the last child of root "+r.Name)
		}
		justMade = false
	}
	readFault := !justMade && c.Chance(1, 6)
	c.Scenario["op"] = op.String()
	c.Scenario["tree"] = forestString(vforest)
	c.Scenario["exts"] = exts
	c.Scenario["history"] = hist
	c.st.Count("mode:" + mode)
	c.st.Count("origin:" + origin)

	// ---- model verdict from an independent scan
	type rootDiff struct{ missing, extra []string }
	diffs := make([]rootDiff, len(vforest))
	anyDiff := false
	for i, r := range vforest {
		nodeSet := map[string]bool{}
		for _, p := range r.Paths("") {
			p = path.Clean(p)
			nodeSet[p] = true
			if _, err := os.Lstat(filepath.Join(target, p)); err != nil {
				diffs[i].missing = append(diffs[i].missing, p)
			}
		}
		for _, e := range snapshot(filepath.Join(target, r.Name)) {
			p := path.Clean(r.Name + "/" + e.Path)
			if !nodeSet[p] {
				diffs[i].extra = append(diffs[i].extra, p)
			}
		}
		sort.Strings(diffs[i].missing)
		sort.Strings(diffs[i].extra)
		if len(diffs[i].missing) > 0 || (op.Strict && len(diffs[i].extra) > 0) {
			anyDiff = true
		}
	}
	if anyDiff || origin == "mkdir" {
		nontrivial = true
	}
	before := snapStringFull(snapshot(j))
	if c.Chance(1, 8) {
		target += "/" // a target directory written with a trailing slash is the same directory
		c.Scenario["target_with_trailing_slash"] = true
	}
	d := &DiskPlan{Jail: j, Target: target, FailAt: -1}
	if readFault {
		d.FailAt, d.Errno, d.Sticky, d.OnlyRead = c.Draw(6), []syscall.Errno{syscall.EACCES, syscall.EIO}[c.Draw(2)], c.Draw(2) == 1, true
		c.Scenario["verify_read_fault"] = fmt.Sprintf("%v at op #%d sticky=%v", d.Errno, d.FailAt, d.Sticky)
	}
	vdoc := canonicalDoc(vforest)
	if !op.FromRoot && c.Chance(1, 3) {
		// the same forest in another notation (indentation unit, bullets, CRLF, blank lines)
		sp := genSpelling(c, false)
		vdoc, _ = spell(c, vforest, sp)
		c.Scenario["doc"] = string(vdoc)
		c.st.Count("verify-doc-in-another-notation")
	}
	vrp := noReaderFault
	vrp.WithLen, vrp.Seekable = c.Chance(1, 6), c.Chance(1, 6)
	env := &Env{Doc: vdoc, Reader: vrp, Writer: noWriterFault, Cb: noCbFault, Disk: d}
	if op.FromRoot {
		env.Tree = vforest[0]
	}
	if origin != "target-missing" && origin != "target-is-file" && c.Chance(1, 8) {
		// the target given as "" with the process standing in the directory
		if old, err := os.Getwd(); err == nil && os.Chdir(strings.TrimSuffix(target, "/")) == nil {
			defer os.Chdir(old)
			op.EmptyTarget = true
			c.Scenario["target_given_as_empty_string"] = true
			c.st.Count("empty-target-option")
		}
	}
	var out *Outcome
	if massive || manyRoots || c.Chance(1, 10) {
		// (the simple-mode call runs under the scheduler too now and then: whatever goroutines
		// it may start are then scheduled deterministically)
		env.MaxSteps = 60000
		out = c.Sim("verify", op, env)
	} else {
		out = c.Direct(op, env)
	}
	after := snapStringFull(snapshot(j))
	target = strings.TrimSuffix(target, "/")
	if nontrivial {
		c.st.Distinct("nontrivial", mix(hashStr(forestString(vforest)+op.String()+before), out.TraceHash))
	}
	c.st.Sample(mode+"/"+origin, map[string]any{"mode": mode, "op": op.String(), "tree": forestString(vforest), "history": hist, "verdict": errStr(out.Err)})
	if len(out.Panics) > 0 || out.Hang || out.StepCap {
		c.st.Count("no-result(not judged here)")
		return
	}
	if m := mutatingOps(out); len(m) > 0 {
		c.Failf("C08:verify-issued-mutating-operation:"+mode, "%v", m)
	}
	if before != after {
		c.Failf("C08:verify-changed-filesystem:"+mode, "before:\n%s\nafter:\n%s", before, after)
	}
	if out.DiskFired > 0 {
		c.st.Count("verify-under-read-fault")
		if out.Err == nil && anyDiff {
			c.Failf("C08:nil-despite-difference-under-read-fault:"+mode, "a read fault was injected, a true difference exists, and Verify returned nil")
		}
		return
	}
	if justMade && out.Err != nil {
		c.Failf("C08:fresh-mkdir-does-not-verify:"+mode, "a tree just created by %s does not verify (strict=%v): %v", mkOp, op.Strict, out.Err)
	}
	if origin == "target-is-file" {
		// nothing can exist below a regular file: any error will do, nil will not
		if out.Err == nil {
			c.Failf("C08:nil-despite-difference:"+mode+":target-is-a-file", "the target directory is a regular file and Verify returned nil")
		}
		return
	}
	if !anyDiff {
		if out.Err != nil {
			c.Failf("C08:error-without-difference:"+mode, "every node path exists (strict=%v, extras: none relevant) but Verify returned:\n%v", op.Strict, out.Err)
		}
		c.st.Count("verdict:nil")
		return
	}
	if out.Err == nil {
		c.Failf("C08:nil-despite-difference:"+mode+":"+strictStr(op.Strict), "differences exist (%+v) but Verify returned nil", diffs)
	}
	c.st.Count("verdict:error")
	ptarget := target
	if op.EmptyTarget {
		ptarget = "."
	}
	extra, missing, ok := parseVerifyErr(out.Err.Error(), ptarget)
	if !ok {
		c.Failf("C08:error-not-in-documented-form:"+mode, "%q", out.Err.Error())
	}
	// every listed path is a true difference
	allMissing, allExtra := map[string]bool{}, map[string]bool{}
	for _, df := range diffs {
		for _, p := range df.missing {
			allMissing[p] = true
		}
		for _, p := range df.extra {
			allExtra[p] = true
		}
	}
	for _, p := range missing {
		if !allMissing[p] {
			c.Failf("C08:listed-missing-path-exists:"+mode, "%s is listed as missing but exists (or is not a node path)", p)
		}
	}
	for _, p := range extra {
		if !allExtra[p] {
			c.Failf("C08:listed-extra-path-is-a-node:"+mode, "%s is listed as extra but is a node path or does not exist", p)
		}
	}
	if !op.Strict && len(extra) > 0 {
		c.Failf("C08:extra-listed-in-non-strict-mode:"+mode, "%v", extra)
	}
	// exactness for the reported root: simple mode reports the first differing root, massive any one
	match := false
	first := true
	var firstDiff rootDiff
	for _, df := range diffs {
		if len(df.missing) == 0 && !(op.Strict && len(df.extra) > 0) {
			continue
		}
		wantExtra := df.extra
		if !op.Strict {
			wantExtra = nil
		}
		if first {
			firstDiff = df
		}
		if strings.Join(df.missing, "\n") == strings.Join(missing, "\n") && strings.Join(wantExtra, "\n") == strings.Join(extra, "\n") {
			if first || massive {
				match = true
			}
		}
		first = false
	}
	if !match {
		cls := "lists-differ"
		if len(firstDiff.missing) > 1 && len(missing) == 1 && missing[0] == firstDiff.missing[0] {
			cls = "absent-root-lists-only-the-root"
		}
		c.Failf("C08:inexact-difference-list:"+cls+":"+mode, "Verify reported\n  missing: %v\n  extra:   %v\nthe first differing root has\n  missing: %v\n  extra:   %v (strict=%v)", missing, extra, firstDiff.missing, firstDiff.extra, op.Strict)
	}
}

func strictStr(b bool) string {
	if b {
		return "strict"
	}
	return "non-strict"
}

// c06RelativeTarget: the target directory is given as a relative path; between an earlier
// library call and the Mkdir the process changes its working directory. The tree must be
// created below the working directory of the moment of the call.
func c06RelativeTarget(c *Ctx, op Op, forest []*MNode, doc []byte, want map[string]string) {
	j := newJail()
	defer removeJail(j)
	old, _ := os.Getwd()
	defer os.Chdir(old)
	cwd1, cwd2 := filepath.Join(j, "cwd1"), filepath.Join(j, "cwd2")
	os.MkdirAll(cwd1, 0o755)
	os.MkdirAll(filepath.Join(cwd2, "out"), 0o755)
	c.st.Count("relative-target-after-chdir")
	c.Scenario["state"] = "relative target, working directory changed after an earlier call"
	os.Chdir(cwd1)
	// an earlier, unrelated call (also one that touches the mkdir machinery)
	pre := &Env{Doc: []byte("- earlier\n  - call\n"), Reader: noReaderFault, Writer: noWriterFault, Cb: noCbFault, Disk: &DiskPlan{Jail: j, Target: "first", FailAt: -1}}
	c.Direct(Op{Kind: "mkdir"}, pre)
	os.Chdir(cwd2)
	if c.Draw(2) == 1 {
		// the target given as "" (after another, overridden, target option) from inside the directory
		os.Chdir(filepath.Join(cwd2, "out"))
		op.EmptyTarget, op.Decoys = true, true
		c.Scenario["state"] = "target given as \"\" after an overridden target option, working directory changed after an earlier call"
	}
	env := &Env{Doc: doc, Reader: noReaderFault, Writer: noWriterFault, Cb: noCbFault, Disk: &DiskPlan{Jail: j, Target: "out", FailAt: -1}}
	if op.FromRoot {
		env.Tree = forest[0]
	}
	c.st.Count("evaluations")
	out := c.Direct(op, env)
	if len(out.Panics) > 0 {
		return
	}
	if out.Err != nil {
		c.Failf("C06:relative-target:error", "Mkdir with the relative target \"out\" failed: %v", out.Err)
	}
	got := snapMap(snapshot(filepath.Join(cwd2, "out")))
	for p, k := range want {
		if got[p].Kind != k {
			c.Failf("C06:relative-target:wrong-place", "node path %s (kind %s) is not below <cwd>/out after Mkdir with a relative target (found %q); entries elsewhere in the jail:\n%s", p, k, got[p].Kind, snapString(snapshot(j)))
		}
	}
	if len(got) != len(want) {
		c.Failf("C06:relative-target:extra-entry", "%d entries below <cwd>/out, expected %d", len(got), len(want))
	}
}
