package simharness

import (
	"bytes"
	"context"
	"fmt"
	"strings"
	"testing"
	"testing/synctest"

	"github.com/ddddddO/gtree"
	"github.com/ddddddO/gtree/simrt"
)

type rndChooser struct{ x uint64 }

func (c *rndChooser) next() uint64 {
	c.x += 0x9e3779b97f4a7c15
	z := c.x
	z = (z ^ (z >> 30)) * 0xbf58476d1ce4e5b9
	z = (z ^ (z >> 27)) * 0x94d049bb133111eb
	return z ^ (z >> 31)
}
func (c *rndChooser) Choose(r *simrt.Run, cands []*simrt.Task) (int, uint32) {
	return int(c.next() % uint64(len(cands))), uint32(c.next())
}

func TestSmoke(t *testing.T) {
	doc := ""
	for i := 0; i < 5; i++ {
		doc += fmt.Sprintf("- r%d\n  - a\n    - b\n  - c\n", i)
	}
	for seed := uint64(1); seed <= 20; seed++ {
		var out bytes.Buffer
		var err error
		var run *simrt.Run
		func() {
			defer func() {
				if p := recover(); p != nil {
					t.Logf("seed %d: bubble panic: %v", seed, p)
				}
			}()
			synctest.Test(t, func(t *testing.T) {
				run = simrt.NewRun(&rndChooser{x: seed}, 100000)
				run.Begin()
				defer run.End()
				run.Spawn("0", "caller", func() {
					err = gtree.OutputFromMarkdown(&out, strings.NewReader(doc), gtree.WithMassive(context.Background()))
				})
				run.Loop()
			})
		}()
		nd := 0
		for _, ti := range run.Infos() {
			if ti.State != "done" {
				nd++
			}
		}
		t.Logf("seed %d: err=%v steps=%d tasks=%d notdone=%d lines=%d hash=%x", seed, err, run.Steps, len(run.Infos()), nd, strings.Count(out.String(), "\n"), run.TraceHash())
	}
}
