package simharness

import (
	"bytes"
	"fmt"
	"sort"
	"strings"
)

// blocksOf returns the per-root blocks of the simple-mode output for the operation: the
// simple output of each root part on its own, accepted only if their concatenation (with
// the format's separator) is exactly the simple output of the whole document.
func blocksOf(c *Ctx, op Op, parts [][]byte, trees []*MNode, full []byte) ([][]byte, bool) {
	simple := op
	simple.Massive = false
	var blocks [][]byte
	n := len(parts)
	if op.FromRoot {
		n = len(trees)
	}
	for i := 0; i < n; i++ {
		env := &Env{Reader: noReaderFault, Writer: noWriterFault, Cb: noCbFault, MapSeed: mix(c.Seed, 0x626c6b00+uint64(i))}
		if op.FromRoot {
			env.Tree = trees[i]
		} else {
			env.Doc = parts[i]
		}
		o := Exec(simple, env)
		if o.Err != nil || len(o.Panics) > 0 {
			return nil, false
		}
		blocks = append(blocks, o.Out)
	}
	sep := []byte(nil)
	if op.Encode == 2 {
		sep = []byte("---\n")
	}
	if !bytes.Equal(bytes.Join(blocks, sep), full) {
		return nil, false
	}
	return blocks, true
}

// isPermutationOfBlocks decides whether out is the concatenation (with sep between
// blocks) of a permutation of blocks. Backtracking, because one block can be a prefix of
// another.
func isPermutationOfBlocks(out []byte, blocks [][]byte, sep []byte) bool {
	used := make([]bool, len(blocks))
	// group identical blocks to cut the search
	var rec func(pos, left int) bool
	rec = func(pos, left int) bool {
		if left == 0 {
			return pos == len(out)
		}
		tried := map[string]bool{}
		for i, b := range blocks {
			if used[i] || tried[string(b)] {
				continue
			}
			tried[string(b)] = true
			p := pos
			if left != len(blocks) && len(sep) > 0 {
				if !bytes.HasPrefix(out[p:], sep) {
					return false
				}
				p += len(sep)
			}
			if bytes.HasPrefix(out[p:], b) {
				used[i] = true
				if rec(p+len(b), left-1) {
					return true
				}
				used[i] = false
			}
		}
		return false
	}
	return rec(0, len(blocks))
}

func visitKey(v Visit) string {
	return fmt.Sprintf("%s|%s|%s|%d|%s|%v", v.Name, v.Branch, v.Row, v.Level, v.Path, v.HasChild)
}

// rootSeqs splits a visit sequence into per-root sequences. byTask: split each task's
// subsequence at level-1 visits (a worker walks one root at a time).
func rootSeqs(vs []Visit, byTask bool) []string {
	var seqs []string
	if byTask {
		perTask := map[string][]Visit{}
		var order []string
		for _, v := range vs {
			if _, ok := perTask[v.Task]; !ok {
				order = append(order, v.Task)
			}
			perTask[v.Task] = append(perTask[v.Task], v)
		}
		for _, t := range order {
			seqs = append(seqs, splitAtRoots(perTask[t])...)
		}
	} else {
		seqs = splitAtRoots(vs)
	}
	sort.Strings(seqs)
	return seqs
}

func splitAtRoots(vs []Visit) []string {
	var seqs []string
	var cur []string
	for _, v := range vs {
		if v.Level == 1 && len(cur) > 0 {
			seqs = append(seqs, strings.Join(cur, "\n"))
			cur = nil
		}
		cur = append(cur, visitKey(v))
	}
	if len(cur) > 0 {
		seqs = append(seqs, strings.Join(cur, "\n"))
	}
	return seqs
}

// sameResult compares a massive-mode outcome with the simple-mode reference for a
// fault-free pair of runs. It returns "" if the massive result is the simple result up to
// the order of roots, else a short clause name and an explanation.
func sameResult(c *Ctx, op Op, parts [][]byte, trees []*MNode, ref, got *Outcome, refSnap, gotSnap string) (string, string) {
	switch op.Kind {
	case "output", "mkdir":
		if op.Kind == "mkdir" && needsFS(op) {
			if refSnap != gotSnap {
				return "fs-differs", fmt.Sprintf("simple left:\n%s\nmassive left:\n%s", refSnap, gotSnap)
			}
			return "", ""
		}
		if bytes.Equal(ref.Out, got.Out) {
			return "", ""
		}
		blocks, ok := blocksOf(c, op, parts, trees, ref.Out)
		if !ok {
			c.st.Count("compare.blocks-unavailable")
			// fall back to a weaker comparison: same multiset of lines
			if sameLineMultiset(ref.Out, got.Out) {
				return "", ""
			}
			return "output-lines-differ", fmt.Sprintf("simple:\n%s\nmassive:\n%s", ref.Out, got.Out)
		}
		sep := []byte(nil)
		if op.Encode == 2 {
			sep = []byte("---\n")
		}
		if !isPermutationOfBlocks(got.Out, blocks, sep) {
			clause := "output-not-permutation-of-blocks"
			if sameLineMultiset(ref.Out, got.Out) {
				clause = "output-blocks-interleaved"
			} else if len(got.Out) < len(ref.Out) {
				clause = "output-truncated"
			}
			return clause, fmt.Sprintf("simple:\n%s\nmassive:\n%s", ref.Out, got.Out)
		}
		return "", ""
	case "walk":
		a := rootSeqs(ref.Visits, false)
		b := rootSeqs(got.Visits, true)
		if strings.Join(a, "\n--\n") != strings.Join(b, "\n--\n") {
			// second chance: group by path when root names are distinct
			if distinctRoots(ref.Visits) {
				b2 := rootSeqsByPath(got.Visits)
				a2 := rootSeqsByPath(ref.Visits)
				if strings.Join(a2, "\n--\n") == strings.Join(b2, "\n--\n") {
					return "", ""
				}
			}
			clause := "walk-differs"
			if len(got.Visits) < len(ref.Visits) {
				clause = "walk-truncated"
			}
			return clause, fmt.Sprintf("simple visits (%d):\n%s\nmassive visits (%d):\n%s", len(ref.Visits), strings.Join(a, "\n--\n"), len(got.Visits), strings.Join(b, "\n--\n"))
		}
		return "", ""
	case "verify":
		return "", "" // verdict = error class, compared by the caller
	}
	return "", ""
}

func distinctRoots(vs []Visit) bool {
	seen := map[string]bool{}
	for _, v := range vs {
		if v.Level == 1 {
			if seen[v.Name] {
				return false
			}
			seen[v.Name] = true
		}
	}
	return true
}

func rootSeqsByPath(vs []Visit) []string {
	m := map[string][]string{}
	for _, v := range vs {
		r := v.Path
		if i := strings.Index(r, "/"); i >= 0 {
			r = r[:i]
		}
		m[r] = append(m[r], visitKey(v))
	}
	var out []string
	for _, s := range m {
		out = append(out, strings.Join(s, "\n"))
	}
	sort.Strings(out)
	return out
}

func sameLineMultiset(a, b []byte) bool {
	la := strings.Split(string(a), "\n")
	lb := strings.Split(string(b), "\n")
	sort.Strings(la)
	sort.Strings(lb)
	return strings.Join(la, "\n") == strings.Join(lb, "\n")
}
