#!/bin/bash
# usage: build.sh <scratch-dir> [level]
# Builds the simulated test binary <scratch>/sim.test from /repo's current working tree.
set -euo pipefail
SCR="$1"; LEVEL="${2:-1}"
REPO="${VERIF_REPO:-/repo}"
V="$(cd "$(dirname "$0")/.." && pwd)"
export GOFLAGS=-mod=mod GOPROXY=off GOTOOLCHAIN=local GOSUMDB=off
GO=go1.26.8
GOROOT_="$($GO env GOROOT)"
mkdir -p "$SCR/mod" "$SCR/overlay"
# 1. instrumenter (built on demand, cached in /verif/bin)
if [ ! -x "$V/bin/instrument" ] || [ "$V/sim/instrument/main.go" -nt "$V/bin/instrument" ]; then
  (cd "$V/sim/instrument" && $GO build -o "$V/bin/instrument" .)
fi
"$V/bin/instrument" -src "$REPO" -dst "$SCR/mod" -level "$LEVEL" > "$SCR/instrument.log"
# 2. simulator runtime + harness
mkdir -p "$SCR/mod/simrt" "$SCR/mod/simfs" "$SCR/mod/simharness"
cp "$V"/sim/simrt/*.go "$V"/sim/simrt/*.s "$SCR/mod/simrt/"
cp "$V"/sim/simfs/*.go "$SCR/mod/simfs/"
cp "$V"/sim/harness/*.go "$SCR/mod/simharness/"
if [ "$LEVEL" -ge 2 ]; then
  printf 'package simharness\n\nfunc init() { level2Build = true }\n' > "$SCR/mod/simharness/level2_gen.go"
fi
# 3. runtime overlay: seeded select + goroutine id
SEL="$GOROOT_/src/runtime/select.go"
N=$(grep -c 'j := cheaprandn(uint32(norder + 1))' "$SEL" || true)
if [ "$N" != "1" ]; then echo "build.sh: runtime/select.go does not have the expected line exactly once" >&2; exit 2; fi
sed 's/j := cheaprandn(uint32(norder + 1))/j := simSelRand(uint32(norder + 1))/' "$SEL" > "$SCR/overlay/select.go"
cat >> "$SCR/overlay/select.go" <<'EOG'

// ---- gtree simulator seam (overlay; GOROOT itself is not modified) ----

//go:linkname simSelState
var simSelState uint32

//go:linkname simGoid
func simGoid() uint64 { return getg().goid }

//go:linkname simInBubble
func simInBubble() bool { return getg().bubble != nil }

//go:linkname simOnOwnStack
func simOnOwnStack(p uintptr) bool { gp := getg(); return p >= gp.stack.lo && p < gp.stack.hi }

func simSelRand(n uint32) uint32 {
	if getg().bubble == nil {
		return cheaprandn(n)
	}
	x := simSelState
	if x == 0 {
		return 0
	}
	x ^= x << 13
	x ^= x >> 17
	x ^= x << 5
	simSelState = x
	return uint32((uint64(x) * uint64(n)) >> 32)
}
EOG
# 3b. runtime overlay: seeded map seeds / iteration offsets (internal/runtime/maps draws them from maps_rand)
RND="$GOROOT_/src/runtime/rand.go"
N=$(grep -c '^func maps_rand() uint64 {$' "$RND" || true)
if [ "$N" != "1" ]; then echo "build.sh: runtime/rand.go does not have the expected maps_rand exactly once" >&2; exit 2; fi
python3 - "$RND" "$SCR/overlay/rand.go" <<'EOP'
import sys
s = open(sys.argv[1]).read()
old = "func maps_rand() uint64 {\n\treturn rand()\n}"
assert s.count(old) == 1, "maps_rand body not as expected"
new = """func maps_rand() uint64 {
	if x := simMapState; x != 0 {
		x ^= x << 13
		x ^= x >> 7
		x ^= x << 17
		simMapState = x
		return x
	}
	return rand()
}

// gtree simulator seam (overlay; GOROOT itself is not modified): while non-zero, map hash
// seeds and iteration offsets come from this xorshift state instead of the per-M generator.
//
//go:linkname simMapState
var simMapState uint64"""
open(sys.argv[2], "w").write(s.replace(old, new))
EOP
printf '{"Replace":{"%s":"%s","%s":"%s"}}\n' "$SEL" "$SCR/overlay/select.go" "$RND" "$SCR/overlay/rand.go" > "$SCR/overlay/overlay.json"
# 4. test binary
(cd "$SCR/mod" && $GO test -c -overlay "$SCR/overlay/overlay.json" -o "$SCR/sim.test" ./simharness)
