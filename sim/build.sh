#!/bin/bash
# usage: build.sh <scratch-dir> [level]
# Builds the simulated test binary <scratch>/sim.test from /repo's current working tree.
set -euo pipefail
SCR="$1"; LEVEL="${2:-1}"
REPO="${VERIF_REPO:-/repo}"
V="$(cd "$(dirname "$0")/.." && pwd)"
export GOFLAGS=-mod=mod GOPROXY=off GOTOOLCHAIN=local GOSUMDB=off
GO=go1.26.8
GOROOT_="$($GO env GOROOT)"
mkdir -p "$SCR/mod" "$SCR/overlay"
# 1. instrumenter (built on demand, cached in /verif/bin)
if [ ! -x "$V/bin/instrument" ] || [ "$V/sim/instrument/main.go" -nt "$V/bin/instrument" ]; then
  (cd "$V/sim/instrument" && $GO build -o "$V/bin/instrument" .)
fi
"$V/bin/instrument" -src "$REPO" -dst "$SCR/mod" -level "$LEVEL" > "$SCR/instrument.log"
# 2. simulator runtime + harness
mkdir -p "$SCR/mod/simrt" "$SCR/mod/simfs" "$SCR/mod/simharness"
cp "$V"/sim/simrt/*.go "$V"/sim/simrt/*.s "$SCR/mod/simrt/"
cp "$V"/sim/simfs/*.go "$SCR/mod/simfs/"
cp "$V"/sim/harness/*.go "$SCR/mod/simharness/"
if [ "$LEVEL" -ge 2 ]; then
  printf 'package simharness\n\nfunc init() { level2Build = true }\n' > "$SCR/mod/simharness/level2_gen.go"
fi
# 3. runtime overlay: seeded select + goroutine id
SEL="$GOROOT_/src/runtime/select.go"
N=$(grep -c 'j := cheaprandn(uint32(norder + 1))' "$SEL" || true)
if [ "$N" != "1" ]; then echo "build.sh: runtime/select.go does not have the expected line exactly once" >&2; exit 2; fi
sed 's/j := cheaprandn(uint32(norder + 1))/j := simSelRand(uint32(norder + 1))/' "$SEL" > "$SCR/overlay/select.go"
cat >> "$SCR/overlay/select.go" <<'EOG'

// ---- gtree simulator seam (overlay; GOROOT itself is not modified) ----

//go:linkname simSelState
var simSelState uint32

//go:linkname simGoid
func simGoid() uint64 { return getg().goid }

//go:linkname simInBubble
func simInBubble() bool { return getg().bubble != nil }

func simSelRand(n uint32) uint32 {
	if getg().bubble == nil {
		return cheaprandn(n)
	}
	x := simSelState
	if x == 0 {
		return 0
	}
	x ^= x << 13
	x ^= x >> 17
	x ^= x << 5
	simSelState = x
	return uint32((uint64(x) * uint64(n)) >> 32)
}
EOG
printf '{"Replace":{"%s":"%s"}}\n' "$SEL" "$SCR/overlay/select.go" > "$SCR/overlay/overlay.json"
# 4. test binary
(cd "$SCR/mod" && $GO test -c -overlay "$SCR/overlay/overlay.json" -o "$SCR/sim.test" ./simharness)
