#!/bin/bash
# usage: ingest14.sh <PROP> [extra checks...] : takes /tmp/wt/<PROP>/out/${M:-m1} as seeded/<PROP>-w14${M:-m1}, confirms it, runs the checks
P=$1; shift
D=/verif/seeded/$P-w14${M:-m1}
mkdir -p $D; cp /tmp/wt/$P/out/${M:-m1}/patch.diff /tmp/wt/$P/out/${M:-m1}/demo_test.go /tmp/wt/$P/out/${M:-m1}/agent_meta.json $D/ || exit 2
/verif/tools/verify_seed.sh /tmp/wt/$P $D | tee $D/confirmation.txt
/verif/tools/run_seed.sh $D/patch.diff $P "$@" | tee $D/first_run.txt
