#!/bin/bash
# wave 2: own-property check for every seeded/*-w3m* change
cd /verif
for d in seeded/*-w3m*/; do
  id=$(basename $d); prop=${id%%-*}
  if ! git -C /repo diff --quiet; then echo "/repo dirty"; exit 2; fi
  git -C /repo apply /verif/$d/patch.diff || { echo "$id: patch does not apply"; continue; }
  ./check $prop --tier quick > /tmp/seed_matrix3.log 2>&1; rc=$?
  git -C /repo checkout -q -- .
  sigs=$(grep -E "^  signature:" /tmp/seed_matrix3.log | sed 's/^  signature: //; s/ (seen.*//' | python3 -c "import sys,json; print(json.dumps([l.strip() for l in sys.stdin]))")
  echo "{\"$prop\": {\"exit\": $rc, \"signatures\": $sigs}}" > $d/check_results.json
  echo "$id $prop exit=$rc $(echo $sigs | cut -c1-200) $(grep TROUBLE /tmp/seed_matrix3.log | cut -c1-120)"
done
