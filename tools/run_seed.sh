#!/bin/bash
# usage: run_seed.sh <patch.diff> <ID> [more IDs...]   (tier from $TIER, default quick)
# Applies the change to /repo, runs the named checks, undoes the change straight afterwards.
P="$1"; shift
cd /verif
if ! git -C /repo diff --quiet; then echo "run_seed: /repo is not clean"; exit 2; fi
git -C /repo apply "$P" || { echo "run_seed: patch does not apply to /repo"; exit 2; }
trap 'git -C /repo checkout -q -- .' EXIT
# replay files of a deliberately broken tree do not belong among /verif/replays
export VERIF_REPLAY_DIR=/tmp/run_seed.replays
export VERIF_EVIDENCE_DIR=/tmp/run_seed.evidence
for id in "$@"; do
  ./check "$id" --tier "${TIER:-quick}" ${BUDGET:+--budget $BUDGET} > /tmp/run_seed.$id.log 2>&1; rc=$?
  echo "== $id exit=$rc $(grep -c '^VIOLATION' /tmp/run_seed.$id.log) violation line(s)"
  grep -E "signature:|TROUBLE" /tmp/run_seed.$id.log | head -6 | cut -c1-220
done
