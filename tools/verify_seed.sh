#!/bin/bash
# usage: verify_seed.sh <worktree> <mutation-dir>
# Confirms, in the scratch worktree: the demo passes without the change; with the change the code
# builds, the stable baseline tests pass and the demo fails. Leaves the worktree clean.
WT="$1"; M="$2"
export GOFLAGS=-mod=mod GOPROXY=off
cd "$WT" || exit 2
git checkout -q -- . ; git clean -fdqx -e out
TEST=$(grep -o 'func Test[A-Za-z0-9_]*' "$M/demo_test.go" | head -1 | sed 's/func //')
cp "$M/demo_test.go" zz_demo_test.go
go test -vet=off -count=1 -run "^${TEST}\$" . > "$M/demo_without.log" 2>&1; R0=$?
git clean -fdqx -e out -e zz_demo_test.go
if ! git apply "$M/patch.diff"; then echo "RESULT patch does not apply"; rm -f zz_demo_test.go; exit 1; fi
go build . ./markdown ./cmd/gtree > "$M/build.log" 2>&1; RB=$?
go test -vet=off -count=1 -run "^${TEST}\$" . > "$M/demo_with.log" 2>&1; R1=$?
rm -f zz_demo_test.go
git clean -fdqx -e out
# the stable baseline needs the repository's leftover directories: copy them like /repo has them
for d in $(cd /repo && ls -d root root1 root8 root_* 2>/dev/null); do cp -r /repo/$d . 2>/dev/null; done
VERIF_REPO="$WT" /verif/baseline.sh > "$M/baseline.log" 2>&1; RT=$?
git checkout -q -- . ; git clean -fdqx -e out
echo "RESULT demo_without_exit=$R0 build_exit=$RB demo_with_exit=$R1 baseline_exit=$RT ($(tail -1 $M/baseline.log | head -c 80))"
[ $R0 -eq 0 ] && [ $RB -eq 0 ] && [ $R1 -ne 0 ] && [ $RT -eq 0 ]
