#!/bin/bash
# Behaviour-preserving edits of ddddddO/gtree must keep every check green (exit 0).
cd /verif
export VERIF_REPLAY_DIR=/tmp/run_seed.replays VERIF_EVIDENCE_DIR=/tmp/run_seed.evidence
for f in benign/*.diff; do
  if ! git -C /repo diff --quiet; then echo "/repo dirty"; exit 2; fi
  git -C /repo apply /verif/$f || { echo "$f does not apply"; continue; }
  for id in C03 C05 C06 C08 C10 C11 C12 C13 C14; do
    ./check $id --tier quick > /tmp/benign.log 2>&1; rc=$?
    echo "$(basename $f) $id exit=$rc $(grep -E 'signature:|TROUBLE' /tmp/benign.log | head -3 | tr '\n' ' ' | cut -c1-300)"
  done
  git -C /repo checkout -q -- .
done
