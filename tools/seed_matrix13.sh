#!/bin/bash
# wave 13: own-property check (plus the history check for two changes that need a call sequence)
export VERIF_REPLAY_DIR=/tmp/run_seed.replays VERIF_EVIDENCE_DIR=/tmp/run_seed.evidence
cd /verif
declare -A EXTRA=([C03-w13m2]="C13" [C08-w13m1]="C11" [C13-w13m2]="C06")
for d in ${DIRS:-seeded/*-w13m*/}; do
  id=$(basename $d); prop=${id%%-*}
  echo "{" > $d/result.tmp; first=1
  for c in $prop ${EXTRA[$id]}; do
    if ! git -C /repo diff --quiet; then echo "/repo dirty"; exit 2; fi
    git -C /repo apply /verif/$d/patch.diff || { echo "$id: patch does not apply"; continue; }
    ./check $c --tier quick > /tmp/seed_matrix13.log 2>&1; rc=$?
    git -C /repo checkout -q -- .
    sigs=$(grep -E "^  signature:" /tmp/seed_matrix13.log | sed 's/^  signature: //; s/ (seen.*//' | python3 -c "import sys,json; print(json.dumps([l.strip() for l in sys.stdin]))")
    [ $first -eq 0 ] && echo "," >> $d/result.tmp; first=0
    echo "\"$c\": {\"exit\": $rc, \"signatures\": $sigs}" >> $d/result.tmp
    echo "$id $c exit=$rc $(echo $sigs | cut -c1-200) $(grep TROUBLE /tmp/seed_matrix13.log | cut -c1-120)"
  done
  echo "}" >> $d/result.tmp; mv $d/result.tmp $d/check_results.json
done
