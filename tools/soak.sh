#!/bin/bash
# usage: soak.sh <first-seed> <last-seed> [tier]
# Runs every check with other seeds on the unchanged tree; anything but exit 0 is logged.
cd /verif
export VERIF_REPLAY_DIR=/tmp/soak.replays VERIF_EVIDENCE_DIR=/tmp/soak.evidence
T=${3:-quick}
for seed in $(seq $1 $2); do
  for id in C03 C05 C06 C08 C10 C11 C12 C13 C14; do
    ./check $id --tier $T --seed $seed > /tmp/soak.log 2>&1; rc=$?
    line=$(grep -E "^$id " /tmp/soak.log | cut -c1-120)
    echo "seed=$seed $id exit=$rc $line"
    if [ $rc -ne 0 ]; then grep -E "VIOLATION|signature:|TROUBLE|NONDET|\|" /tmp/soak.log | head -12 | cut -c1-300; cp /tmp/soak.log /tmp/soak.$seed.$id.log; fi
  done
done
