#!/bin/bash
# Runs checks against every seeded change and records which signatures each check reports.
# usage: seed_matrix.sh [extra "SEED:CHECK" pairs...]   (own-property check is always run)
cd /verif
declare -A EXTRA=( [C03-m1]="C13" [C03-m2]="C10 C06" [C10-m2]="C11" [C12-m3]="C14" [C11-m3]="C10" [C10-m1]="C11" )
for d in seeded/*/; do
  id=$(basename $d); prop=${id%%-*}
  checks="$prop ${EXTRA[$id]}"
  echo "{" > $d/result.tmp
  first=1
  for c in $checks; do
    if ! git -C /repo diff --quiet; then echo "/repo dirty"; exit 2; fi
    git -C /repo apply /verif/$d/patch.diff || { echo "$id: patch does not apply"; continue; }
    ./check $c --tier quick > /tmp/seed_matrix.log 2>&1; rc=$?
    git -C /repo checkout -q -- .
    sigs=$(grep -E "^  signature:" /tmp/seed_matrix.log | sed 's/^  signature: //; s/ (seen.*//' | python3 -c "import sys,json; print(json.dumps([l.strip() for l in sys.stdin]))")
    [ $first -eq 0 ] && echo "," >> $d/result.tmp
    first=0
    echo "\"$c\": {\"exit\": $rc, \"signatures\": $sigs}" >> $d/result.tmp
    echo "$id $c exit=$rc $(echo $sigs | cut -c1-160)"
  done
  echo "}" >> $d/result.tmp
  mv $d/result.tmp $d/check_results.json
done
